/-
  C18 — PROPERTY THEOREMS: decomposing a circuit never changes what it does.
  Model: OQ/Model/C18.lean.  Helper lemmas: OQ/Lemmas/C18.lean, OQ/Lemmas/C18_Complex.lean.

  Semantics.  "Gate matrix `M` on the qubit tuple `qs` of the register" is a `Placement` (Lemmas/C18): a family of
  maps `emb qs : Matrix (Fin 2^|qs|) … → Matrix (BV ι) (BV ι)` that is multiplicative and homogeneous.  Every
  placement of tuples through `OQ.Spec.lift` is one (`Placement.ofLift`), so each theorem below holds for the spec
  semantics with ANY choice of partition / index identification per tuple – all qubit placements.  A circuit acts
  as the product of its operations, first operation rightmost (`denote`).

  The full property is FALSE of the code as it exists (known finding F9): the rule for a CONTROLLED U3(θ,φ,λ)
  re-applies the controls to RZ(λ), RY(θ), RZ(φ) and so drops the factor e^{i(φ+λ)/2} on the controlled block
  only – a relative phase.  Hence:
    * `decompose_up_to_phase_partial` proves the property for every circuit whose controlled U3s have
      e^{i(φ+λ)/2} = 1 (no restriction on plain U3s, other gates, control counts, placements, rule lists);
    * `controlled_phase_necessary` proves that this condition cannot be dropped;
    * `cu3_relative_phase` is the concrete negative witness on the executable model.
-/
import OQ.Lemmas.C18
import OQ.Lemmas.C18_Complex
set_option linter.unusedSectionVars false
namespace OQ.C18
open Matrix OQ.Spec

/-! ## rule lists: empty list, order of application -/
section Chaining
variable {Op : Type}

/-- "With an empty rule list the circuit is returned unchanged" – operation list. -/
theorem no_rules_id (ops : List Op) : decomposeOperations ([] : List (Rule Op)) ops = some ops :=
  decomposeOperations_nil ops

/-- "rules are applied in the order given to the output of the previous rule": decomposing with `r :: rs` is
    one full pass of `r` over the circuit followed by decomposing its output with `rs` (an exception anywhere
    makes both sides raise). -/
theorem rules_in_order (r : Rule Op) (rs : List (Rule Op)) (ops : List Op) :
    decomposeOperations (r :: rs) ops = (decomposeOperations [r] ops).bind (decomposeOperations rs) := by
  rw [decomposeOperations_cons, decomposeOperations_cons]
  cases flatMapM (applyRule r) ops with
  | none => rfl
  | some mid => simp [decomposeOperations_nil]

/-- the same for any split of the rule list: `rs₁ ++ rs₂` = all of `rs₁`, then all of `rs₂` on its output -/
theorem rules_append (rs₁ rs₂ : List (Rule Op)) (ops : List Op) :
    decomposeOperations (rs₁ ++ rs₂) ops = (decomposeOperations rs₁ ops).bind (decomposeOperations rs₂) := by
  induction rs₁ generalizing ops with
  | nil => simp [decomposeOperations_nil]
  | cons r rs ih =>
    rw [List.cons_append, decomposeOperations_cons, decomposeOperations_cons]
    cases flatMapM (applyRule r) ops with
    | none => rfl
    | some mid => simp only [Option.bind_some]; exact ih mid

/-- one pass of a single rule replaces exactly the matching operations, in place -/
theorem single_rule_pass (r : Rule Op) (ops : List Op) :
    decomposeOperations [r] ops = flatMapM (applyRule r) ops := by
  rw [decomposeOperations_cons]
  cases flatMapM (applyRule r) ops with
  | none => rfl
  | some mid => simp [decomposeOperations_nil]

/-- "operations no rule applies to are kept unchanged": an operation on which every predicate is false
    decomposes to itself. -/
theorem unmatched_kept (rules : List (Rule Op)) (op : Op) (h : ∀ r ∈ rules, r.predicate op = some false) :
    decomposeOperation rules op = some [op] := by
  induction rules with
  | nil => rfl
  | cons r rs ih =>
    have hr : applyRule r op = some [op] := by simp [applyRule, h r (by simp)]
    rw [decomposeOperation_cons, hr, Option.bind_some]
    unfold decomposeOperations
    rw [flatMapM_cons, ih (fun r' hr' => h r' (by simp [hr']))]
    rfl

/-- "… and in order": the output is the concatenation, in circuit order, of the outputs of the operations;
    an unmatched operation stays between what its neighbours became. -/
theorem kept_in_place (rules : List (Rule Op)) (pre post pre' post' : List Op) (op : Op)
    (h : ∀ r ∈ rules, r.predicate op = some false)
    (hpre : decomposeOperations rules pre = some pre') (hpost : decomposeOperations rules post = some post') :
    decomposeOperations rules (pre ++ op :: post) = some (pre' ++ op :: post') := by
  unfold decomposeOperations at *
  rw [flatMapM_append, hpre, flatMapM_cons, unmatched_kept rules op h, hpost]
  rfl

example : decomposeOperations ([] : List (Rule Nat)) [3, 1, 2] = some [3, 1, 2] := by decide
/-- two different toy rules in both orders give different results: the order matters and is the given one -/
example :
    let dbl : Rule Nat := ⟨fun n => some (n % 2 == 0), fun n => some [n / 2, n / 2]⟩
    let dec : Rule Nat := ⟨fun n => some (n > 2), fun n => some [n - 1, 1]⟩
    decomposeOperations [dbl, dec] [4, 3] = some [2, 2, 2, 1] ∧
    decomposeOperations [dec, dbl] [4, 3] = some [3, 1, 1, 1, 1] := by decide

/-- `unmatched_kept` / `kept_in_place` at work: 3 is odd and not > 5, its neighbours are rewritten -/
example :
    let dbl : Rule Nat := ⟨fun n => some (n % 2 == 0), fun n => some [n / 2, n / 2]⟩
    let big : Rule Nat := ⟨fun n => some (n > 5), fun n => some [n - 1, 1]⟩
    (∀ r ∈ [dbl, big], r.predicate 3 = some false) ∧
    decomposeOperations [dbl, big] ([8] ++ 3 :: [7]) = some ([4, 4] ++ 3 :: [6, 1]) := by decide
/-- `rules_append` with two non-empty halves -/
example :
    let dbl : Rule Nat := ⟨fun n => some (n % 2 == 0), fun n => some [n / 2, n / 2]⟩
    let dec : Rule Nat := ⟨fun n => some (n > 2), fun n => some [n - 1, 1]⟩
    decomposeOperations ([dbl, dec] ++ [dbl]) [4, 3] = some [1, 1, 1, 1, 1, 1, 1] := by decide

end Chaining

/-! ## the bundled rule: what it matches and what it produces -/
section U3Structure
variable {α R : Type}

/-- the rule matches exactly the gates named "U3" and `ControlledGate`s (any number of controls) whose wrapped
    gate is named "U3"; it never matches (and never raises on) a non-gate operation -/
theorem u3_predicate_iff (g : Gate α R) (qs : List Nat) :
    u3Predicate (.gate g qs) = some true ↔
      (∃ ps m, g = .mf "U3" ps m) ∨ (∃ ps m c, g = .controlled (.mf "U3" ps m) c) := by
  have hC : (("Control" : String) == "U3") = false := by decide
  cases g with
  | mf n ps m =>
    simp only [u3Predicate, Gate.name, Bool.or_false, Option.some.injEq, beq_iff_eq]
    constructor
    · intro h; exact Or.inl ⟨ps, m, by rw [h]⟩
    · rintro (⟨ps', m', h⟩ | ⟨_, _, _, h⟩)
      · injection h
      · cases h
  | controlled w c =>
    simp only [u3Predicate, Gate.name, hC, Bool.false_or, Option.some.injEq, beq_iff_eq]
    constructor
    · intro h
      cases w with
      | mf n ps m => simp only [Gate.name] at h; exact Or.inr ⟨ps, m, c, by rw [h]⟩
      | controlled w' c' => exact absurd h (by simp [Gate.name])
      | dagger w' => exact absurd h (dagger_name_ne _)
    · rintro (⟨_, _, h⟩ | ⟨ps', m', c', h⟩)
      · cases h
      · injection h with h1 h2; subst h1; rfl
  | dagger w =>
    simp only [u3Predicate, Gate.name, Bool.or_false, Option.some.injEq, beq_iff_eq]
    constructor
    · intro h; exact absurd h (dagger_name_ne _)
    · rintro (⟨_, _, h⟩ | ⟨_, _, _, h⟩) <;> cases h

/-- non-gate operations (`MultiPhaseOperation`, `ResetOperation`) are kept unchanged by any list of bundled rules -/
theorem nongate_kept (n : Nat) (t : String) (qs : List Nat) :
    decomposeOperation (List.replicate n (u3Rule : Rule (Operation α R))) (.other t qs) = some [.other t qs] := by
  apply unmatched_kept
  intro r hr
  rw [List.eq_of_mem_replicate hr]; rfl

/-- "every general single-qubit rotation gate … is replaced": a plain U3(θ,φ,λ) on any qubits becomes
    RZ(λ), RY(θ), RZ(φ) (circuit order) on the same qubits -/
theorem u3_replaced_plain (th ph la : α) (m : Option (Mat R)) (qs : List Nat) :
    decomposeOperation [u3Rule] (.gate (.mf "U3" [th, ph, la] m) qs) =
      some [.gate (rzGate la) qs, .gate (ryGate th) qs, .gate (rzGate ph) qs] := by
  have hp : u3Predicate (Operation.gate (Gate.mf "U3" [th, ph, la] m : Gate α R) qs) = some true :=
    (u3_predicate_iff _ qs).mpr (Or.inl ⟨_, _, rfl⟩)
  simp only [decomposeOperation, applyRule, u3Rule, hp]
  rfl

/-- "… plain or controlled (any number of controls, any qubits)": a U3 with `c ≥ 1` controls becomes the three
    rotations with the same `c` controls re-applied, on the same qubits -/
theorem u3_replaced_controlled (th ph la : α) (m : Option (Mat R)) (c : Nat) (hc : 1 ≤ c) (qs : List Nat) :
    decomposeOperation [u3Rule] (.gate (.controlled (.mf "U3" [th, ph, la] m) c) qs) =
      some [.gate (.controlled (rzGate la) c) qs, .gate (.controlled (ryGate th) c) qs,
            .gate (.controlled (rzGate ph) c) qs] := by
  have hp : u3Predicate (Operation.gate (Gate.controlled (Gate.mf "U3" [th, ph, la] m : Gate α R) c) qs)
      = some true := (u3_predicate_iff _ qs).mpr (Or.inr ⟨_, _, _, rfl⟩)
  have hc' : ¬ c < 1 := by omega
  simp only [decomposeOperation, applyRule, u3Rule, hp]
  simp [u3Production, Gate.params, Gate.mfControlled, hc', flatMapM]

example : decomposeOperation [u3Rule] (Operation.gate (Gate.mf "U3" [1, 2, 3] none : Gate Nat Nat) [5]) =
    some [.gate (rzGate 3) [5], .gate (ryGate 1) [5], .gate (rzGate 2) [5]] := u3_replaced_plain 1 2 3 none [5]
example : decomposeOperation [u3Rule]
      (Operation.gate (Gate.controlled (Gate.mf "U3" [1, 2, 3] none : Gate Nat Nat) 2) [4, 0, 7]) =
    some [.gate (.controlled (rzGate 3) 2) [4, 0, 7], .gate (.controlled (ryGate 1) 2) [4, 0, 7],
          .gate (.controlled (rzGate 2) 2) [4, 0, 7]] := u3_replaced_controlled 1 2 3 none 2 (by decide) [4, 0, 7]
/-- matched: U3 with three controls; not matched: the dagger of a U3, a U3 under two nested ControlledGates -/
example : u3Predicate (Operation.gate (Gate.controlled (Gate.mf "U3" [1, 2, 3] none : Gate Nat Nat) 3) [0, 1, 2, 3])
    = some true := by decide
example : u3Predicate (Operation.gate (Gate.dagger (Gate.mf "U3" [1, 2, 3] none : Gate Nat Nat)) [0]) = some false := by
  decide
example : u3Predicate (Operation.gate
    (Gate.controlled (Gate.controlled (Gate.mf "U3" [1, 2, 3] none : Gate Nat Nat) 1) 1) [0, 1, 2]) = some false := by
  decide

end U3Structure

/-! ## circuits: declared width, empty rule list -/
section Width
variable {α R : Type}

/-- "With an empty rule list the circuit is returned unchanged" – circuit object, including its declared width.
    (`c.n = 0 → c.ops = []` holds of every `Circuit` the constructor can return.) -/
theorem no_rules_circuit_id (c : Circuit α R) (hc : c.n = 0 → c.ops = []) :
    decomposeCircuit [] c = some c := by
  unfold decomposeCircuit
  rw [decomposeOperations_nil]
  simp only [mkCircuit]
  by_cases hn : c.n = 0
  · have := hc hn
    cases c with
    | mk ops n =>
      simp only at hn this
      subst hn this
      simp [sizeByOps]
  · simp [hn]

/-- the decomposed circuit keeps the width of the original (idle trailing qubits are not dropped) and holds
    the decomposed operation list -/
theorem width_kept (rules : List (Rule (Operation α R))) (c c' : Circuit α R) (hc : c.n ≠ 0)
    (h : decomposeCircuit rules c = some c') :
    c'.n = c.n ∧ decomposeOperations rules c.ops = some c'.ops := by
  unfold decomposeCircuit at h
  cases hd : decomposeOperations rules c.ops with
  | none => rw [hd] at h; simp at h
  | some ops' =>
    rw [hd] at h
    simp only [mkCircuit, hc, ne_eq, not_false_eq_true, if_true, Option.some.injEq] at h
    subst h
    exact ⟨rfl, rfl⟩

example : decomposeCircuit [u3Rule]
    (⟨[.gate (.mf "X" [] none) [0], .other "reset" [1]], 3⟩ : Circuit Nat Nat) =
    some ⟨[.gate (.mf "X" [] none) [0], .other "reset" [1]], 3⟩ := by
  simp [decomposeCircuit, decomposeOperations, flatMapM, decomposeOperation, applyRule, u3Rule, u3Predicate,
    Gate.name, mkCircuit]

end Width

/-! ## the matrix identity behind the rule -/
section Identity
variable {R : Type} [CommRing R]

/-- **U3(θ,φ,λ) = e^{i(φ+λ)/2} · RZ(φ) · RY(θ) · RZ(λ)** as an identity of the gate matrices of `OQ.Gates`, in every
    commutative ring with `i² = −1`, for φ and λ on the unit circle (`ehp a = cos a/2 + i sin a/2`). -/
theorem u3_plain (k : Scal R) (hi : k.i * k.i = -1) (th ph la : Ang R)
    (hph : ph.ch * ph.ch + ph.sh * ph.sh = 1) (hla : la.ch * la.ch + la.sh * la.sh = 1) :
    Mat.toM 2 2 (Gates.u3 k th ph la) =
      (ph.ehp k * la.ehp k) •
        (Mat.toM 2 2 (Gates.rz k ph) * Mat.toM 2 2 (Gates.ry th) * Mat.toM 2 2 (Gates.rz k la)) :=
  u3_toM k hi th ph la hph hla

/-- the identity on the register, for any placement of the qubit through `OQ.Spec.lift` ("acts identically on
    every state" up to the scalar): lift is multiplicative and linear, so the scalar factors out -/
theorem u3_plain_lifted {κ μ ι : Type} [Fintype κ] [DecidableEq κ] [Fintype μ] [DecidableEq μ] [Fintype ι]
    [DecidableEq ι] (σ : κ ⊕ μ ≃ ι) (e : Fin 2 ≃ BV κ) (k : Scal R) (hi : k.i * k.i = -1) (th ph la : Ang R)
    (hph : ph.ch * ph.ch + ph.sh * ph.sh = 1) (hla : la.ch * la.ch + la.sh * la.sh = 1) :
    lift σ (Matrix.reindex e e (Mat.toM 2 2 (Gates.u3 k th ph la))) =
      (ph.ehp k * la.ehp k) •
        (lift σ (Matrix.reindex e e (Mat.toM 2 2 (Gates.rz k ph))) *
         lift σ (Matrix.reindex e e (Mat.toM 2 2 (Gates.ry th))) *
         lift σ (Matrix.reindex e e (Mat.toM 2 2 (Gates.rz k la)))) := by
  let d : LiftData ι 1 := ⟨κ, μ, σ, e⟩
  have hmul := d.emb_mul (R := R)
  have hsmul := d.emb_smul (R := R)
  simp only [LiftData.emb] at hmul hsmul
  rw [u3_plain k hi th ph la hph hla]
  exact (hsmul _ _).trans (by rw [hmul, hmul])

/-- at real angles in ℂ the scalar is the complex phase e^{i(φ+λ)/2} -/
theorem u3_plain_complex (θ φ lam : ℝ) :
    Mat.toM 2 2 (Gates.u3 scalC (angOfReal θ) (angOfReal φ) (angOfReal lam)) =
      Complex.exp ((((φ + lam) / 2 : ℝ) : ℂ) * Complex.I) •
        (Mat.toM 2 2 (Gates.rz scalC (angOfReal φ)) * Mat.toM 2 2 (Gates.ry (angOfReal θ)) *
          Mat.toM 2 2 (Gates.rz scalC (angOfReal lam))) := by
  rw [← phase_ofReal]
  exact u3_plain scalC scalC_ii _ _ _ (realAng_ofReal φ).1 (realAng_ofReal lam).1

/-- the hypotheses of `u3_plain` at a non-trivial rational point: φ = 2·atan(4/3), λ = 2·atan(12/5) in ℂ -/
example : scalC.i * scalC.i = -1 ∧ a35.ch * a35.ch + a35.sh * a35.sh = 1 ∧ a513.ch * a513.ch + a513.sh * a513.sh = 1 :=
  ⟨scalC_ii, real_a35.1, real_a513.1⟩

end Identity

/-! ## the action of the circuit -/
section Action
variable {R : Type} [CommRing R] [StarRing R] {ι : Type} [Fintype ι] [DecidableEq ι]

/-- **all rule lists**: if every rule of the list is sound on a class `Good` of operations (what it produces acts
    like the operation it replaces up to a unit-modulus scalar, and stays in `Good`), then decomposing any
    circuit of `Good` operations with the whole list – rules chained in order – yields a circuit with the same
    action up to ONE global phase.  (`D` = action of a single operation, arbitrary.) -/
theorem chain_sound {Op : Type} {n : Type} [Fintype n] [DecidableEq n] (D : Op → Option (Matrix n n R))
    (Good : Op → Prop) (rules : List (Rule Op)) (hr : ∀ r ∈ rules, r.Sound D Good) (ops out : List Op)
    (hg : ∀ op ∈ ops, Good op) (h : decomposeOperations rules ops = some out) (U : Matrix n n R)
    (hU : denoteBy D ops = some U) : ∃ U', denoteBy D out = some U' ∧ PhaseEq U U' :=
  (chain_sound_aux D Good rules hr ops out hg h).2 U hU

/-- the bundled rule `U3GateToRotation` is sound, for every placement of qubit tuples, on the operations whose
    parameters are real angles, whose gates named "U3" are the built-in U3, and whose CONTROLLED U3s have
    e^{i(φ+λ)/2} = 1 (`U3Good`) -/
theorem u3_rule_sound (E : Placement R ι) (k : Scal R) (hi : k.i * k.i = -1) (hs : star k.i = -k.i) :
    (u3Rule : Rule (Operation (Ang R) R)).Sound (denoteOp E k) (U3Good k) :=
  u3Rule_sound E k hi hs

/-- **Decomposing a circuit never changes what it does – PARTIAL.**
    For every register and placement of qubit tuples, every list of bundled rules (any length, including empty),
    every circuit (any gates, any number of plain or controlled U3s with any number of controls on any qubits,
    non-gate operations allowed in the operation list) with real angles: if the decomposition returns `out` and
    the circuit acts as `U`, then `out` acts as some `U'` with `U = p • U'` for ONE scalar `p` of modulus 1.
    MISSING for the full statement (and false of the code, see `controlled_phase_necessary`,
    `cu3_relative_phase`): controlled U3s with e^{i(φ+λ)/2} ≠ 1 – excluded by `hphase`.
    `hbuiltin` excludes custom gates that reuse the reserved name "U3". -/
theorem decompose_up_to_phase_partial (E : Placement R ι) (k : Scal R) (hi : k.i * k.i = -1)
    (hs : star k.i = -k.i) (rules : List (Rule (Operation (Ang R) R))) (hrules : ∀ r ∈ rules, r = u3Rule)
    (ops out : List (Operation (Ang R) R))
    (hreal : ∀ op ∈ ops, RealParams op) (hbuiltin : ∀ op ∈ ops, BuiltinU3 op)
    (hphase : ∀ op ∈ ops, CtrlPhaseTrivial k op)
    (h : decomposeOperations rules ops = some out) (U : Matrix (BV ι) (BV ι) R) (hU : denote E k ops = some U) :
    ∃ U', denote E k out = some U' ∧ PhaseEq U U' :=
  chain_sound (denoteOp E k) (U3Good k) rules
    (fun r hr => by rw [hrules r hr]; exact u3_rule_sound E k hi hs) ops out
    (fun op hop => ⟨hreal op hop, hbuiltin op hop, hphase op hop⟩) h U hU

/-- **circuits whose U3s are uncontrolled** (any number, any placement, among any other gates): the property
    holds in full – same action up to one global phase. -/
theorem decompose_plain_up_to_phase (E : Placement R ι) (k : Scal R) (hi : k.i * k.i = -1)
    (hs : star k.i = -k.i) (rules : List (Rule (Operation (Ang R) R))) (hrules : ∀ r ∈ rules, r = u3Rule)
    (ops out : List (Operation (Ang R) R))
    (hreal : ∀ op ∈ ops, RealParams op) (hbuiltin : ∀ op ∈ ops, BuiltinU3 op)
    (hplain : ∀ op ∈ ops, isCtrlU3 op = false)
    (h : decomposeOperations rules ops = some out) (U : Matrix (BV ι) (BV ι) R) (hU : denote E k ops = some U) :
    ∃ U', denote E k out = some U' ∧ PhaseEq U U' :=
  decompose_up_to_phase_partial E k hi hs rules hrules ops out hreal hbuiltin
    (fun op hop hc => by rw [hplain op hop] at hc; exact absurd hc (by simp)) h U hU

/-- **controlled U3, PARTIAL**: a U3(θ,φ,λ) with any number `c` of controls on any qubits, with
    e^{i(φ+λ)/2} = 1, acts EXACTLY as the three controlled rotations the rule produces.
    MISSING: e^{i(φ+λ)/2} ≠ 1, where the statement is false (`controlled_phase_necessary`). -/
theorem decompose_controlled_partial (E : Placement R ι) (k : Scal R) (hi : k.i * k.i = -1)
    (th ph la : Ang R) (hph : RealAng ph) (hla : RealAng la) (hone : ph.ehp k * la.ehp k = 1)
    (c : Nat) (qs : List Nat) (U : Matrix (BV ι) (BV ι) R)
    (hU : denote E k [.gate (.controlled (.mf "U3" [th, ph, la] none) c) qs] = some U) :
    denote E k [.gate (.controlled (rzGate la) c) qs, .gate (.controlled (ryGate th) c) qs,
                .gate (.controlled (rzGate ph) c) qs] = some U := by
  unfold denote at *
  rw [denoteBy_singleton] at hU
  exact u3_ctrl_sound E k hi th ph la hph hla hone c qs U hU

omit [StarRing R] in
/-- **why the controlled case is only partial (F9)**: if the matrix of a U3(θ,φ,λ) with `c ≥ 1` controls is ANY
    scalar multiple of the product of the three controlled rotations the rule produces, then e^{i(φ+λ)/2} = 1.
    So for every controlled U3 with φ+λ ≢ 0 (mod 4π) the decomposed circuit differs from the original by a
    RELATIVE phase, in every commutative ring with i² = −1. -/
theorem controlled_phase_necessary (k : Scal R) (hi : k.i * k.i = -1) (th ph la : Ang R)
    (hth : th.ch * th.ch + th.sh * th.sh = 1) (hph : ph.ch * ph.ch + ph.sh * ph.sh = 1)
    (hla : la.ch * la.ch + la.sh * la.sh = 1) (c : Nat) (hc : 1 ≤ c) (p : R)
    (h : Mat.toM (2 * 2 ^ c) (2 * 2 ^ c) (ctrlMatrix c (Gates.u3 k th ph la)) =
      p • (Mat.toM (2 * 2 ^ c) (2 * 2 ^ c) (ctrlMatrix c (Gates.rz k ph)) *
           Mat.toM (2 * 2 ^ c) (2 * 2 ^ c) (ctrlMatrix c (Gates.ry th)) *
           Mat.toM (2 * 2 ^ c) (2 * 2 ^ c) (ctrlMatrix c (Gates.rz k la)))) :
    ph.ehp k * la.ehp k = 1 :=
  ctrl_u3_phase_necessary k hi th ph la hth hph hla c hc _ rfl p h

end Action

/-! ## ℂ, real angles -/
section ComplexCorollary
variable {ι : Type} [Fintype ι] [DecidableEq ι]

/-- the circuit-level statement for real rotation angles in ℂ (uncontrolled U3s): the scalar is a complex number
    of modulus one, `p * conj p = 1`. -/
theorem decompose_plain_up_to_phase_complex (E : Placement ℂ ι) (n : Nat)
    (ops out : List (Operation (Ang ℂ) ℂ))
    (hreal : ∀ op ∈ ops, ∀ g qs, op = .gate g qs → ∀ a ∈ g.params, ∃ t : ℝ, a = angOfReal t)
    (hbuiltin : ∀ op ∈ ops, BuiltinU3 op) (hplain : ∀ op ∈ ops, isCtrlU3 op = false)
    (h : decomposeOperations (List.replicate n u3Rule) ops = some out) (U : Matrix (BV ι) (BV ι) ℂ)
    (hU : denote E scalC ops = some U) :
    ∃ (U' : Matrix (BV ι) (BV ι) ℂ) (p : ℂ), denote E scalC out = some U' ∧ p * star p = 1 ∧ U = p • U' := by
  have hreal' : ∀ op ∈ ops, RealParams op := by
    intro op hop
    cases op with
    | other t qs => trivial
    | gate g qs =>
      intro a ha
      obtain ⟨t, rfl⟩ := hreal _ hop g qs rfl a ha
      exact realAng_ofReal t
  obtain ⟨U', hU', p, hp, hpU⟩ := decompose_plain_up_to_phase E scalC scalC_ii scalC_star
    (List.replicate n u3Rule) (fun r hr => List.eq_of_mem_replicate hr) ops out hreal' hbuiltin hplain h U hU
  exact ⟨U', p, hU', hp, hpU⟩

end ComplexCorollary

/-! ## the full-strength statement of the controlled case, and its refutation -/
section FullStatement

/-- THE FULL-STRENGTH STATEMENT for controlled gates ("every general single-qubit rotation gate, plain or
    CONTROLLED (any number of controls) is replaced by a sequence that acts identically" up to one phase), at the
    level of gate matrices: for all real angles and every number `c ≥ 1` of controls the controlled U3 is a
    unit-modulus multiple of the product of the three controlled rotations the rule produces. -/
def ControlledRuleExact (R : Type) [CommRing R] [StarRing R] (k : Scal R) : Prop :=
  ∀ (th ph la : Ang R), RealAng th → RealAng ph → RealAng la → ∀ c : Nat, 1 ≤ c →
    ∃ p : R, IsPhase p ∧
      Mat.toM (2 * 2 ^ c) (2 * 2 ^ c) (ctrlMatrix c (Gates.u3 k th ph la)) =
        p • (Mat.toM (2 * 2 ^ c) (2 * 2 ^ c) (ctrlMatrix c (Gates.rz k ph)) *
             Mat.toM (2 * 2 ^ c) (2 * 2 ^ c) (ctrlMatrix c (Gates.ry th)) *
             Mat.toM (2 * 2 ^ c) (2 * 2 ^ c) (ctrlMatrix c (Gates.rz k la)))

/-- **F9: the full-strength statement is FALSE of the code** (over ℂ): CU3(0, π, 0) is a counterexample. -/
theorem controlled_rule_exact_false : ¬ ControlledRuleExact ℂ scalC := by
  intro h
  have hr : ∀ a b : ℂ, a * a + b * b = 1 → star a = a → star b = b → RealAng (⟨a, b⟩ : Ang ℂ) :=
    fun a b h1 h2 h3 => ⟨h1, h2, h3⟩
  have r10 : RealAng (⟨1, 0⟩ : Ang ℂ) := hr 1 0 (by norm_num) (by simp) (by simp)
  have r01 : RealAng (⟨0, 1⟩ : Ang ℂ) := hr 0 1 (by norm_num) (by simp) (by simp)
  obtain ⟨p, _, hp⟩ := h ⟨1, 0⟩ ⟨0, 1⟩ ⟨1, 0⟩ r10 r01 r10 1 (le_refl 1)
  have := controlled_phase_necessary scalC scalC_ii ⟨1, 0⟩ ⟨0, 1⟩ ⟨1, 0⟩ r10.1 r01.1 r10.1 1 (le_refl 1) p hp
  simp only [Ang.ehp, scalC, mul_one, mul_zero, add_zero, zero_add] at this
  have him := congrArg Complex.im this
  simp at him

/-- the hypothesis of `controlled_phase_necessary` is satisfiable at a non-trivial point (two controls,
    φ = −λ = 2·atan(4/3), θ = 2·atan(12/5), p = 1) -/
example : ∃ p : ℂ,
    Mat.toM (2 * 2 ^ 2) (2 * 2 ^ 2) (ctrlMatrix 2 (Gates.u3 scalC a513 a35 a35n)) =
      p • (Mat.toM (2 * 2 ^ 2) (2 * 2 ^ 2) (ctrlMatrix 2 (Gates.rz scalC a35)) *
           Mat.toM (2 * 2 ^ 2) (2 * 2 ^ 2) (ctrlMatrix 2 (Gates.ry a513)) *
           Mat.toM (2 * 2 ^ 2) (2 * 2 ^ 2) (ctrlMatrix 2 (Gates.rz scalC a35n))) :=
  ⟨1, by rw [one_smul]; exact ctrl_u3_toM scalC scalC_ii a513 a35 a35n real_a35.1 real_a35n.1 phase_a35 2 _ rfl⟩

end FullStatement

/-! ## non-vacuity of the circuit-level theorems -/
section NonVacuity

/-- a 3-qubit register placed through `OQ.Spec.lift`; the circuit X(0); U3(θ,φ,λ)(0) with φ+λ ≠ 0;
    CU3(θ,φ,−φ)(0,1) at non-trivial rational points meets every hypothesis of `decompose_up_to_phase_partial`
    (with two rules), decomposes into 7 operations and has an action. -/
example : ∃ out U,
    (∀ op ∈ exOps, RealParams op) ∧ (∀ op ∈ exOps, BuiltinU3 op) ∧ (∀ op ∈ exOps, CtrlPhaseTrivial scalC op) ∧
    decomposeOperations [u3Rule, u3Rule] exOps = some out ∧ out.length = 7 ∧
    denote exPlacement scalC exOps = some U := by
  refine ⟨_, _, ?_, ?_, ?_, rfl, rfl, rfl⟩
  · intro op hop
    simp only [exOps, List.mem_cons, List.not_mem_nil, or_false] at hop
    rcases hop with rfl | rfl | rfl
    · intro a ha; simp [Gate.params] at ha
    · intro a ha
      simp only [Gate.params, List.mem_cons, List.not_mem_nil, or_false] at ha
      rcases ha with rfl | rfl | rfl
      exacts [real_a513, real_a35, real_a513]
    · intro a ha
      simp only [Gate.params, List.mem_cons, List.not_mem_nil, or_false] at ha
      rcases ha with rfl | rfl | rfl
      exacts [real_a513, real_a35, real_a35n]
  · intro op hop
    simp only [exOps, List.mem_cons, List.not_mem_nil, or_false] at hop
    rcases hop with rfl | rfl | rfl <;> intro _ <;> rfl
  · intro op hop
    simp only [exOps, List.mem_cons, List.not_mem_nil, or_false] at hop
    rcases hop with rfl | rfl | rfl
    · intro h; simp [isCtrlU3] at h
    · intro h; simp [isCtrlU3] at h
    · intro _ g qs th ph la hg hps
      injection hg with hg1 hg2
      subst hg1
      simp only [Gate.params, List.cons.injEq, and_true] at hps
      obtain ⟨_, rfl, rfl⟩ := hps
      exact phase_a35

end NonVacuity

/-! ## the negative witness on the executable model (R = ℚ(ζ₈), exact) -/
section Witness

/-- U3(0, π, 0) = Z with one control on qubits (0, 1): φ + λ = π -/
def cu3Witness : Circuit (Ang Cyc8) Cyc8 :=
  ⟨[.gate (.controlled (.mf "U3" [⟨1, 0⟩, ⟨0, 1⟩, ⟨1, 0⟩] none) 1) [0, 1]], 2⟩

/-- what the model (as the code) returns for it -/
def cu3WitnessOut : Circuit (Ang Cyc8) Cyc8 :=
  ⟨[.gate (.controlled (rzGate ⟨1, 0⟩) 1) [0, 1], .gate (.controlled (ryGate ⟨1, 0⟩) 1) [0, 1],
    .gate (.controlled (rzGate ⟨0, 1⟩) 1) [0, 1]], 2⟩

/-- **F9, negative witness**: the model reproduces the defect.  CU3(0,π,0) = diag(1,1,1,−1) decomposes into
    C-RZ(0), C-RY(0), C-RZ(π) whose product is diag(1,1,−i,i): the entries (0,0) agree (so a global phase would
    have to be 1) while the entries (3,3) are −1 and i. -/
theorem cu3_relative_phase :
    decomposeCircuit [u3Rule] cu3Witness = some cu3WitnessOut ∧
    ((circuitUnitary Scal.cyc8 cu3Witness).map (fun U => (U.get 0 0, U.get 3 3))
        = some ((1 : Cyc8), (-1 : Cyc8))) ∧
    ((circuitUnitary Scal.cyc8 cu3WitnessOut).map (fun U => (U.get 0 0, U.get 3 3))
        = some ((1 : Cyc8), Cyc8.I)) := by
  refine ⟨?_, by decide +kernel, by decide +kernel⟩
  rfl

end Witness

end OQ.C18
