/-
  Line-protocol driver of the executable models (no Mathlib in its import closure).
  request :  <property> <op> <json>
  response:  <json>           (one line; "err:…" strings for modelled errors,
                               {"driver_error": …} for malformed requests)
-/
import OQ.Driver.All
open Lean

def respond (line : String) : String :=
  match line.trimAscii.toString.splitOn " " with
  | prop :: op :: rest =>
    let payload := " ".intercalate rest
    match Json.parse payload with
    | .error e => (Json.mkObj [("driver_error", Json.str s!"json: {e}")]).compress
    | .ok j =>
      match OQ.Driver.dispatch prop op j with
      | .ok r => r.compress
      | .error e => (Json.mkObj [("driver_error", Json.str e)]).compress
  | _ => (Json.mkObj [("driver_error", Json.str "bad request line")]).compress

partial def loop (h : IO.FS.Stream) (out : IO.FS.Stream) : IO Unit := do
  let line ← h.getLine
  if line.isEmpty then return ()
  if line.trimAscii.toString.isEmpty then loop h out else
  out.putStrLn (respond line)
  loop h out

def main : IO Unit := do
  let out ← IO.getStdout
  loop (← IO.getStdin) out
  out.flush
