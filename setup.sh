#!/bin/sh
# MANIFEST.setup_cmd: offline build of the Lean project (proofs + model driver) from files on disk.
set -e
cd "$(dirname "$0")"
export PIP_NO_INDEX=1
/venv/bin/python -c "from harness import extract; print(extract.write_all())"
cd lean
lake build
echo 'C13 expand {"n": 7, "m": 3}' | .lake/build/bin/oqdriver
cd ..
/venv/bin/python -m harness.audit_all
