import Model
import Mathlib.Data.Matrix.Mul
import Mathlib.Algebra.BigOperators.Fin
import Mathlib.Tactic.Ring
open OQ
variable {R : Type} [CommRing R]

theorem sumTo_eq (n : Nat) (f : Nat → R) : sumTo n f = ∑ k ∈ Finset.range n, f k := by
  unfold sumTo
  induction n with
  | zero => simp
  | succ n ih => rw [List.range_succ, List.foldl_append, ih, Finset.sum_range_succ]; simp

def toM (d : Nat) (A : Nat → Nat → R) : Matrix (Fin d) (Fin d) R := fun i j => A i j

theorem toM_mmul (d : Nat) (A B : Nat → Nat → R) : toM d (mmul d A B) = toM d A * toM d B := by
  ext i j
  simp [toM, mmul, sumTo_eq, Matrix.mul_apply, Finset.sum_range]
#print axioms toM_mmul
