import Mathlib.Analysis.Normed.Algebra.MatrixExponential
import Mathlib.Analysis.SpecialFunctions.Trigonometric.Basic
import Mathlib.Analysis.SpecialFunctions.Exponential

open Matrix NormedSpace Complex

variable {m : Type} [Fintype m] [DecidableEq m]

/-- exp of a ±1 diagonal generator: closed form, no power series needed -/
theorem exp_sign_diag (θ : ℝ) (d : m → ℂ) (hd : ∀ x, d x = 1 ∨ d x = -1) :
    NormedSpace.exp ((-(I * θ)) • Matrix.diagonal d)
      = (Real.cos θ : ℂ) • (1 : Matrix m m ℂ) - (I * Real.sin θ) • Matrix.diagonal d := by
  have h1 : (-(I * θ)) • Matrix.diagonal d = Matrix.diagonal (fun x => -(I * θ) * d x) := by
    ext i j; by_cases h : i = j <;> simp [Matrix.diagonal, h]
  rw [h1, Matrix.exp_diagonal]
  ext i j
  by_cases h : i = j
  · subst h
    simp only [Matrix.diagonal_apply_eq, Matrix.sub_apply, Matrix.smul_apply, Matrix.one_apply_eq,
      smul_eq_mul, mul_one, Pi.coe_exp]
    rcases hd i with h | h <;> rw [h]
    · rw [← Complex.exp_eq_exp_ℂ]
      have : -(I * (θ:ℂ)) * 1 = ((-θ : ℝ) : ℂ) * I := by push_cast; ring
      rw [this, Complex.exp_mul_I]
      simp [Complex.ofReal_cos, Complex.ofReal_sin]; ring
    · rw [← Complex.exp_eq_exp_ℂ]
      have : -(I * (θ:ℂ)) * (-1) = ((θ : ℝ) : ℂ) * I := by push_cast; ring
      rw [this, Complex.exp_mul_I]
      simp [Complex.ofReal_cos, Complex.ofReal_sin]; ring
  · simp [Matrix.diagonal, h, Matrix.one_apply_ne h]
#print axioms exp_sign_diag
