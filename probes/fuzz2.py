import numpy as np, random, warnings, sympy, math, tempfile, os
warnings.simplefilter("ignore")
from fractions import Fraction as Fr
from orquestra.quantum.operators import PauliTerm, PauliSum
from orquestra.quantum.measurements import Measurements, get_parities_from_measurements
from orquestra.quantum.distributions import *
from orquestra.quantum.utils import scale_and_discretize
from orquestra.quantum.circuits import split_into_batches, expand_sample_sizes, combine_measurement_counts, combine_bitstrings
from orquestra.quantum.circuits.symbolic.sympy_expressions import expression_from_sympy, SYMPY_DIALECT
from orquestra.quantum.circuits.symbolic.translations import translate_expression
rnd=random.Random(11)
bad=0
# C10
for it in range(500):
    w=rnd.randint(1,5); N=rnd.randint(1,30)
    shots=[tuple(rnd.randint(0,1) for _ in range(w)) for _ in range(N)]
    terms=[]
    for _ in range(rnd.randint(1,4)):
        S=[q for q in range(w) if rnd.random()<0.5]
        terms.append(PauliTerm({q:"Z" for q in S}, rnd.randint(-4,4)/2))
    op=PauliSum(terms)
    for bess in (False,True):
        if bess and N==1: continue
        ev=Measurements(list(shots)).get_expectation_values(op,bess)
        vals=[[t.coefficient*(-1)**sum(s[q] for q in t.qubits) for s in shots] for t in terms]
        means=[sum(v)/N for v in vals]
        if not np.allclose(ev.values,means): print("C10 values",shots,op); bad+=1
        corr=[[sum(a*b for a,b in zip(vals[i],vals[j]))/N for j in range(len(terms))] for i in range(len(terms))]
        if not np.allclose(ev.correlations[0],corr): print("C10 corr",shots,op, ev.correlations[0], corr); bad+=1; break
        cov=(np.array(corr)-np.outer(means,means))/(N-1 if bess else N)
        if not np.allclose(ev.estimator_covariances[0],cov): print("C10 cov"); bad+=1
    par=get_parities_from_measurements(list(shots),op)
    for i,t in enumerate(terms):
        ev_=sum(1 for s in shots if sum(s[q] for q in t.qubits)%2==0)
        if tuple(par.values[i])!=(ev_,N-ev_): print("C10 par"); bad+=1
print("C10 done",bad)
# C13
for it in range(3000):
    k=rnd.randint(0,6); ns=[rnd.randint(1,50) for _ in range(k)]; mx=rnd.randint(1,12)
    cs=list(range(k))
    nc,nn,mult=expand_sample_sizes(cs,ns,mx)
    ok=len(nc)==len(nn)==sum(mult) and all(1<=x<=mx for x in nn)
    pos=0
    for c,n,m in zip(cs,ns,mult):
        ok&= nc[pos:pos+m]==[c]*m and sum(nn[pos:pos+m])==n; pos+=m
    if not ok: print("C13 expand",ns,mx); bad+=1
    if k:
        res=[["0"]*x for x in nn]
        comb=combine_bitstrings(res,mult)
        if [len(x) for x in comb]!=ns: print("C13 combine"); bad+=1
        comb=combine_measurement_counts([{"0":x} for x in nn],mult)
        if [x["0"] for x in comb]!=ns: print("C13 combine counts"); bad+=1
    b=list(split_into_batches(cs,ns,mx))
    flat=[c for chunk,_ in b for c in chunk]
    if flat!=cs or any(len(ch)>mx for ch,_ in b): print("C13 batches"); bad+=1
    pos=0
    for ch,s in b:
        if any(ns[c]>s for c in ch): print("C13 batch samples"); bad+=1
for it in range(3000):
    k=rnd.randint(1,6)
    vals=[rnd.choice([rnd.randint(1,20), rnd.random()*10+1e-3]) for _ in range(k)]; tot=rnd.randint(1,200)
    try:
        r=scale_and_discretize(vals,tot)
    except AssertionError as e:
        print("C13 scale assert",vals,tot); bad+=1; continue
    S=sum(Fr(v) for v in vals)
    if sum(r)!=tot or any(abs(Fr(x)-Fr(v)*tot/S)>=1+Fr(1,10**6) for x,v in zip(r,vals)) or any(type(x) is not int for x in r): print("C13 scale",vals,tot,r); bad+=1
np.random.seed(3)
for it in range(1500):
    w=rnd.randint(1,3); keys=list({tuple(rnd.randint(0,1) for _ in range(w)) for _ in range(rnd.randint(1,6))})
    ws=[rnd.choice([0,rnd.random(),rnd.randint(1,5)]) for _ in keys]
    if sum(ws)==0: continue
    d=MeasurementOutcomeDistribution(dict(zip(keys,ws)))
    N=rnd.randint(1,40)
    try:
        m=Measurements.get_measurements_representing_distribution(d,N)
    except Exception as e:
        print("C13 repr EXC",dict(zip(keys,ws)),N,type(e).__name__,e); bad+=1; continue
    supp={k for k,v in d.distribution_dict.items() if v>0}
    if len(m.bitstrings)!=N or any(b not in supp for b in m.bitstrings): print("C13 repr",d,N,m.bitstrings); bad+=1
print("C13 done",bad)
# C17 F7
d=MeasurementOutcomeDistribution({(12,):0.5,(3,):0.5})
fn=os.path.join(tempfile.mkdtemp(),"d.json"); save_measurement_outcome_distribution(d,fn)

try: print("F7",load_measurement_outcome_distribution(fn))
except Exception as e: print("F7 EXC", type(e).__name__)
for it in range(500):
    w=rnd.randint(1,4)
    def rd():
        keys=list({tuple(rnd.randint(0,1) for _ in range(w)) for _ in range(rnd.randint(1,6))})
        return MeasurementOutcomeDistribution({k:rnd.random()+0.01 for k in keys})
    a,b=rd(),rd(); sg=rnd.choice([0.5,1.0,3.0,[0.5,2.0]])
    m1=compute_mmd(a,b,{"sigma":sg}); m2=compute_mmd(b,a,{"sigma":sg})
    if abs(m1-m2)>1e-12 or m1<-1e-12 or abs(compute_mmd(a,a,{"sigma":sg}))>1e-12: print("C17 mmd",a,b,sg,m1,m2); bad+=1
    nll=compute_clipped_negative_log_likelihood(a,b,{}); H=-sum(p*math.log(p) for p in a.distribution_dict.values())
    if nll < H-1e-6: print("C17 nll",nll,H); bad+=1
    if abs(compute_jensen_shannon_divergence(a,b,{})-compute_jensen_shannon_divergence(b,a,{}))>1e-12: print("C17 jsd"); bad+=1
    # marginal
    qs=rnd.sample(range(w),rnd.randint(1,w))
    src=dict(a.distribution_dict)
    import copy; a2=copy.deepcopy(a)
    s=a2.subdistribution(qs)
    ref={}
    for k,v in src.items():
        kk=tuple(k[i] for i in qs); ref[kk]=ref.get(kk,0)+v
    if set(ref)!=set(s.distribution_dict) or any(abs(ref[k]-s.distribution_dict[k])>1e-12 for k in ref): print("C17 marg",a,qs,s); bad+=1
print("C17 done",bad)
# C19
syms=sympy.symbols("x y beta_2 theta")
def rex(d):
    if d==0 or rnd.random()<0.25:
        return rnd.choice([*syms, sympy.Integer(rnd.randint(-3,3)), sympy.Float(rnd.random()), sympy.Rational(rnd.randint(1,5),rnd.randint(1,5)), sympy.I, rnd.randint(1,4), 0.5])
    k=rnd.random(); a,b=rex(d-1),rex(d-1)
    if k<0.2: return a+b
    if k<0.35: return a-b
    if k<0.55: return a*b
    if k<0.65: return a/(b if b!=0 else 1)
    if k<0.75: return a**rnd.choice([2,3,-1,-2,sympy.Rational(1,2)])
    if k<0.8: return sympy.sqrt(a)
    return rnd.choice([sympy.cos,sympy.sin,sympy.exp,sympy.tan])(a)
import cmath
for it in range(3000):
    try: e=rex(4)
    except ZeroDivisionError: continue
    e=sympy.sympify(e)
    try:
        tr=translate_expression(expression_from_sympy(e),SYMPY_DIALECT)
    except Exception as ex:
        exc=globals().setdefault("exc",{}); exc[str(ex)[:50]]=exc.get(str(ex)[:50],0)+1; continue
    sub={s:rnd.random()+0.3 for s in syms}
    sub2={sympy.Symbol(s.name):v for s,v in sub.items()}
    try:
        v1=complex(sympy.N(e.subs(sub))); v2=complex(sympy.N(sympy.sympify(tr).subs(sub2)))
    except Exception as ex: continue
    if not (abs(v1-v2)<=1e-7*max(1,abs(v1)) or (v1!=v1)): print("C19 MIS",e,"->",tr,v1,v2); bad+=1
print("C19 done",bad)

print(globals().get("exc"))
