import Mathlib.Data.Matrix.Mul
import Mathlib.LinearAlgebra.Matrix.Kronecker
import Mathlib.LinearAlgebra.Matrix.Reindex
import Mathlib.Logic.Equiv.Fin.Basic
import Mathlib.Logic.Equiv.Prod
import Mathlib.Data.Fintype.Pi
import Mathlib.Data.Fintype.Sum
import Mathlib.Tactic.Ring

open Matrix
abbrev BV (ι : Type) := ι → Bool
variable {R : Type} [CommRing R] {κ μ ι : Type}
  [Fintype κ] [DecidableEq κ] [Fintype μ] [DecidableEq μ] [Fintype ι] [DecidableEq ι]

/-- split the register along a partition of the qubits -/
def splitBV (σ : κ ⊕ μ ≃ ι) : BV ι ≃ BV κ × BV μ :=
  (Equiv.arrowCongr σ.symm (Equiv.refl Bool)).trans (Equiv.sumArrowEquivProdArrow κ μ Bool)

/-- gate `M` on the qubits `κ` (placed by σ), identity on the rest -/
def lift (σ : κ ⊕ μ ≃ ι) (M : Matrix (BV κ) (BV κ) R) : Matrix (BV ι) (BV ι) R :=
  Matrix.reindex (splitBV σ).symm (splitBV σ).symm (kroneckerMap (· * ·) M (1 : Matrix (BV μ) (BV μ) R))

theorem lift_mul (σ : κ ⊕ μ ≃ ι) (A B : Matrix (BV κ) (BV κ) R) :
    lift σ (A * B) = lift σ A * lift σ B := by
  unfold lift
  rw [Matrix.reindex_apply, Matrix.reindex_apply, Matrix.reindex_apply, Matrix.submatrix_mul_equiv]
  congr 1
  have := Matrix.mul_kronecker_mul A B (1 : Matrix (BV μ) (BV μ) R) (1 : Matrix (BV μ) (BV μ) R)
  simpa [Matrix.kronecker] using this

theorem lift_apply (σ : κ ⊕ μ ≃ ι) (M : Matrix (BV κ) (BV κ) R) (x y : BV ι) :
    lift σ M x y = if (∀ m, x (σ (Sum.inr m)) = y (σ (Sum.inr m)))
      then M (fun k => x (σ (Sum.inl k))) (fun k => y (σ (Sum.inl k))) else 0 := by
  simp [lift, splitBV, Matrix.one_apply, kroneckerMap_apply, funext_iff]
  split_ifs <;> first | rfl | simp_all [Equiv.sumArrowEquivProdArrow]
#print axioms lift_mul
