import numpy as np, random, warnings, sympy, math, itertools
warnings.simplefilter("ignore")
from orquestra.quantum.circuits import *
from orquestra.quantum.operators import PauliTerm, PauliSum, get_sparse_operator, reverse_qubit_order, hermitian_conjugated, is_hermitian, get_expectation_value
from orquestra.quantum.operators._utils import get_pauliop_from_matrix
from orquestra.quantum.wavefunction import Wavefunction, flip_amplitudes
from orquestra.quantum.runners.symbolic_simulator import SymbolicSimulator
rnd=random.Random(7); bad=0
P={"I":np.eye(2),"X":np.array([[0,1],[1,0]],complex),"Y":np.array([[0,-1j],[1j,0]]),"Z":np.diag([1.,-1]).astype(complex)}
def mat(op,n):
    tot=np.zeros((2**n,2**n),complex)
    for t in op.terms:
        m=np.array([[t.coefficient]],complex)
        for q in range(n): m=np.kron(m,P[t._ops.get(q,"I")])
        tot+=m
    return tot
def ref_lift(M,qs,n):
    k=len(qs); L=np.zeros((2**n,2**n),complex)
    for x in range(2**n):
        for y in range(2**n):
            bx=[(x>>(n-1-q))&1 for q in range(n)]; by=[(y>>(n-1-q))&1 for q in range(n)]
            if all(bx[q]==by[q] for q in range(n) if q not in qs):
                sx=int("".join(str(bx[q]) for q in qs),2); sy=int("".join(str(by[q]) for q in qs),2)
                L[x,y]=M[sx,sy]
    return L
# C01
for it in range(300):
    n=rnd.randint(1,4); ops=[]; ref=np.eye(2**n,dtype=complex)
    for _ in range(rnd.randint(1,5)):
        k=rnd.randint(1,min(3,n)); qs=rnd.sample(range(n),k)
        M=sympy.Matrix(2**k,2**k,lambda i,j: sympy.Integer(rnd.randint(-2,2))+sympy.I*rnd.randint(-2,2))
        g=CustomGateDefinition(f"g{len(ops)}",M,())()
        ops.append(g(*qs)); ref=ref_lift(np.array(M,dtype=complex),qs,n)@ref
    c=Circuit(ops,n_qubits=n)
    U=np.array(c.to_unitary(),dtype=complex)
    if not np.allclose(U,ref): print("C01 unitary",c); bad+=1
    v=np.array([rnd.randint(-2,2)+1j*rnd.randint(-2,2) for _ in range(2**n)],dtype=complex)
    w=v
    for op in ops: w=op.apply(w)
    if not np.allclose(np.array(w,dtype=complex).flatten(),ref@v): print("C01 apply"); bad+=1
print("C01",bad)
# C08 controlled / inverse
for it in range(150):
    n=rnd.randint(1,3); ops=[]
    for _ in range(rnd.randint(1,4)):
        g=rnd.choice([X,Y,Z,S,T,SX,CNOT,CZ,SWAP,ISWAP,RX(0.3),RY(1.1),RZ(-0.7),PHASE(0.4),XX(0.5),S.dagger,T.controlled(1),RX(0.2).power(2),U3(0.1,0.2,0.3)])
        if g.num_qubits>n: continue
        ops.append(g(*rnd.sample(range(n),g.num_qubits)))
    if not ops: continue
    c=Circuit(ops,n_qubits=n); U=np.array(c.to_unitary(),dtype=complex)
    Ui=np.array(c.inverse().to_unitary(),dtype=complex)
    if not np.allclose(Ui,U.conj().T): print("C08 inv",c); bad+=1
    k=rnd.randint(0,n); cc=c.controlled(k)
    if cc.n_qubits!=n+1:
        pass
    m=cc.n_qubits
    Uc=np.array(cc.to_unitary(),dtype=complex)
    # reference on m qubits: remaining qubits = all except k
    rest=[q for q in range(m) if q!=k]
    width_orig=m-1
    Uo=np.array(Circuit(ops,n_qubits=width_orig).to_unitary(),dtype=complex) if width_orig>=c.n_qubits or True else None
    try:
        Uo=np.array(Circuit(ops,n_qubits=width_orig).to_unitary(),dtype=complex)
    except Exception as e: continue
    ref=np.zeros((2**m,2**m),complex)
    for x in range(2**m):
        for y in range(2**m):
            bx=[(x>>(m-1-q))&1 for q in range(m)]; by=[(y>>(m-1-q))&1 for q in range(m)]
            if bx[k]!=by[k]: continue
            sx=int("".join(str(bx[q]) for q in rest) or "0",2); sy=int("".join(str(by[q]) for q in rest) or "0",2)
            ref[x,y]= (1 if sx==sy else 0) if bx[k]==0 else Uo[sx,sy]
    if not np.allclose(Uc,ref): print("C08 ctrl",c,k,cc); bad+=1
print("C08",bad)
# C09
for it in range(300):
    n=rnd.randint(1,3)
    terms=[PauliTerm({q:rnd.choice("XYZ") for q in range(n) if rnd.random()<0.6}, complex(rnd.randint(-3,3),rnd.randint(-3,3))) for _ in range(rnd.randint(1,4))]
    s=PauliSum(terms); nn=max(s.n_qubits,1)+rnd.randint(0,2)
    try: sp=get_sparse_operator(s,nn).toarray()
    except Exception as e: print("C09 EXC",s,nn,e); bad+=1; continue
    if not np.allclose(sp,mat(s,nn)): print("C09 sparse",s,nn); bad+=1
    if not np.allclose(mat(hermitian_conjugated(s),nn),mat(s,nn).conj().T): print("C09 hc"); bad+=1
    ss=s.simplify()
    if len(ss.terms) and is_hermitian(ss)!=np.allclose(mat(ss,nn),mat(ss,nn).conj().T): print("C09 isherm",ss); bad+=1
    A=np.array([[complex(rnd.randint(-2,2),rnd.randint(-2,2)) for _ in range(2**n)] for _ in range(2**n)])
    back=get_pauliop_from_matrix(A.tolist())
    if not np.allclose(mat(back,n),A): print("C09 expansion",A); bad+=1
    r=reverse_qubit_order(s,nn); rr=reverse_qubit_order(r,nn)
    if not np.allclose(mat(rr,nn),mat(s,nn)): print("C09 rev2"); bad+=1
    perm=[int(format(i,f"0{nn}b")[::-1],2) for i in range(2**nn)]
    if not np.allclose(mat(r,nn),mat(s,nn)[np.ix_(perm,perm)]): print("C09 rev1"); bad+=1
    v=np.array([complex(rnd.random(),rnd.random()) for _ in range(2**nn)]); v/=np.linalg.norm(v)
    if abs(get_expectation_value(s,Wavefunction(v))-v.conj()@mat(s,nn)@v)>1e-9: print("C09 exp"); bad+=1
print("C09",bad)
# C12 dicke / flip
for n in range(1,9):
    for k in range(0,n+1):
        wf=Wavefunction.dicke_state(n,k); p=wf.get_probabilities()
        idx={i for i in range(2**n) if bin(i).count("1")==k}
        if {i for i in range(2**n) if p[i]>0}!=idx or not np.allclose([p[i] for i in idx],1/len(idx)): print("C12 dicke",n,k); bad+=1
    a=np.arange(2**n); f=flip_amplitudes(a)
    if list(f)!=[int(format(i,f"0{n}b")[::-1],2) for i in range(2**n)] or list(flip_amplitudes(f))!=list(a): print("C12 flip",n); bad+=1
print("C12",bad)
# C04
sim=SymbolicSimulator(seed=5)
for it in range(120):
    n=rnd.randint(1,4)
    ops=[RY(rnd.choice([0.3,1.1,2.0,math.pi]))(q) for q in range(n) if rnd.random()<0.8] or [X(0)]
    if n>1 and rnd.random()<0.5: ops.append(CNOT(*rnd.sample(range(n),2)))
    c=Circuit(ops,n_qubits=n)
    wf=sim.get_wavefunction(c); amp=np.array(wf.amplitudes,dtype=complex)
    dist=sim.get_measurement_outcome_distribution(c,None).distribution_dict
    for i in range(2**n):
        key=tuple((i>>(n-1-q))&1 for q in range(n))
        if abs(dist.get(key,0)-abs(amp[i])**2)>1e-9: print("C04 dist",c); bad+=1; break
    for N in (2, 2**n+5):
        m=sim.run_and_measure(c,N)
        for b in m.bitstrings:
            if len(b)!=n or dist.get(tuple(b),0)<1e-12: print("C04 sample",c,b); bad+=1
        cnt=m.get_counts()
        if any(dist.get(tuple(int(ch) for ch in k),0)<1e-12 for k in cnt): print("C04 counts"); bad+=1
    S=[q for q in range(n) if rnd.random()<0.6]
    op=PauliTerm({q:"Z" for q in S},1.5)
    ex=sim.get_exact_expectation_values(c,op)
    ref=sum(p*1.5*(-1)**sum(k[q] for q in S) for k,p in dist.items())
    if abs(ex-ref)>1e-9: print("C04 exact",c,S,ex,ref); bad+=1
print("C04",bad)
