import numpy as np, random, itertools, warnings, json, tempfile, os
warnings.simplefilter("ignore")
from orquestra.quantum.operators import PauliTerm, PauliSum, get_sparse_operator
P={"I":np.eye(2),"X":np.array([[0,1],[1,0]],complex),"Y":np.array([[0,-1j],[1j,0]]),"Z":np.diag([1.,-1]).astype(complex)}
def mat(op,n):
    if isinstance(op,(int,float,complex)): return op*np.eye(2**n)
    tot=np.zeros((2**n,2**n),complex)
    for t in op.terms:
        m=np.array([[t.coefficient]],complex)
        for q in range(n): m=np.kron(m,P[t._ops.get(q,"I")])
        tot+=m
    return tot
rnd=random.Random(5)
def rterm(n):
    ops={q:rnd.choice("XYZ") for q in range(n) if rnd.random()<0.6}
    c=rnd.choice([rnd.randint(-4,4)/4, complex(rnd.randint(-4,4)/4, rnd.randint(-4,4)/4), rnd.randint(-3,3)])
    return PauliTerm(ops,c)
def robj(n):
    k=rnd.random()
    if k<0.3: return rterm(n)
    if k<0.8: return PauliSum([rterm(n) for _ in range(rnd.randint(0,4))])
    return rnd.choice([2,0.5,-1.5,1j,0,(1+0.5j)])
n=3; bad=0
import operator
for it in range(4000):
    a,b=robj(n),robj(n)
    if isinstance(a,(int,float,complex)) and isinstance(b,(int,float,complex)): continue
    for name,f in [("add",operator.add),("sub",operator.sub),("mul",operator.mul)]:
        try:
            r=f(a,b)
        except Exception as e:
            print("EXC",name,repr(a),repr(b),type(e).__name__,e); bad+=1; continue
        ref=f(mat(a,n),mat(b,n)) if name!="mul" else mat(a,n)@mat(b,n)
        if not np.allclose(mat(r,n),ref,atol=1e-7):
            print("MISMATCH",name,repr(a),"|",repr(b),"->",repr(r)); bad+=1
    if not isinstance(a,(int,float,complex)):
        for p in (0,1,2,3,5):
            r=a**p
            if not np.allclose(mat(r,n),np.linalg.matrix_power(mat(a,n),p),atol=1e-6): print("POW",repr(a),p,repr(r)); bad+=1
        d=rnd.choice([2,4,-0.5,2j])
        r=a/d
        if not np.allclose(mat(r,n),mat(a,n)/d): print("DIV",repr(a),d); bad+=1
        # eq
        if isinstance(a,PauliSum):
            s=a.simplify(); t=PauliSum(list(reversed(s.terms)))
            if not (s==t): print("EQ order",repr(s)); bad+=1
            if not np.allclose(mat(s,n),mat(a,n),atol=1e-7): print("SIMPL",repr(a)); bad+=1
            # eq vs matrix equality
            b2=robj(n)
            if isinstance(b2,PauliSum):
                s2=b2.simplify()
                if (s==s2)!=np.allclose(mat(s,n),mat(s2,n)): print("EQ semantic",repr(s),"|",repr(s2), s==s2); bad+=1
        # text roundtrip
        try:
            back=PauliSum(str(a)) if isinstance(a,PauliSum) else PauliTerm(str(a))
            if not np.allclose(mat(back,n),mat(a,n)): print("TEXT",repr(a),repr(back)); bad+=1
        except Exception as e:
            if "I" not in str(a).replace("*I","*I#") or True:
                key=str(e)[:40]
                if not hasattr(robj,"seen"): robj.seen=set()
                if key not in robj.seen: robj.seen.add(key); print("TEXT EXC",repr(a),type(e).__name__,e)
print("bad",bad)
