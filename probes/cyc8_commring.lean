import Mathlib.Tactic.Ring
import Mathlib.Algebra.Ring.Defs
import Mathlib.Data.Rat.Defs
import Mathlib.Algebra.Order.Field.Rat

/-- Q(ζ₈): a + bζ + cζ² + dζ³ with ζ⁴ = -1 -/
@[ext] structure Cyc8 where
  a : ℚ
  b : ℚ
  c : ℚ
  d : ℚ
deriving DecidableEq, Repr

namespace Cyc8
instance : Zero Cyc8 := ⟨⟨0,0,0,0⟩⟩
instance : One Cyc8 := ⟨⟨1,0,0,0⟩⟩
instance : Add Cyc8 := ⟨fun x y => ⟨x.a+y.a, x.b+y.b, x.c+y.c, x.d+y.d⟩⟩
instance : Neg Cyc8 := ⟨fun x => ⟨-x.a, -x.b, -x.c, -x.d⟩⟩
instance : Mul Cyc8 := ⟨fun x y =>
  ⟨x.a*y.a - x.b*y.d - x.c*y.c - x.d*y.b,
   x.a*y.b + x.b*y.a - x.c*y.d - x.d*y.c,
   x.a*y.c + x.b*y.b + x.c*y.a - x.d*y.d,
   x.a*y.d + x.b*y.c + x.c*y.b + x.d*y.a⟩⟩
@[simp] theorem zero_a : (0:Cyc8).a = 0 := rfl
@[simp] theorem zero_b : (0:Cyc8).b = 0 := rfl
@[simp] theorem zero_c : (0:Cyc8).c = 0 := rfl
@[simp] theorem zero_d : (0:Cyc8).d = 0 := rfl
@[simp] theorem one_a : (1:Cyc8).a = 1 := rfl
@[simp] theorem one_b : (1:Cyc8).b = 0 := rfl
@[simp] theorem one_c : (1:Cyc8).c = 0 := rfl
@[simp] theorem one_d : (1:Cyc8).d = 0 := rfl
@[simp] theorem add_a (x y : Cyc8) : (x+y).a = x.a+y.a := rfl
@[simp] theorem add_b (x y : Cyc8) : (x+y).b = x.b+y.b := rfl
@[simp] theorem add_c (x y : Cyc8) : (x+y).c = x.c+y.c := rfl
@[simp] theorem add_d (x y : Cyc8) : (x+y).d = x.d+y.d := rfl
@[simp] theorem neg_a (x : Cyc8) : (-x).a = -x.a := rfl
@[simp] theorem neg_b (x : Cyc8) : (-x).b = -x.b := rfl
@[simp] theorem neg_c (x : Cyc8) : (-x).c = -x.c := rfl
@[simp] theorem neg_d (x : Cyc8) : (-x).d = -x.d := rfl
@[simp] theorem mul_a (x y : Cyc8) : (x*y).a = x.a*y.a - x.b*y.d - x.c*y.c - x.d*y.b := rfl
@[simp] theorem mul_b (x y : Cyc8) : (x*y).b = x.a*y.b + x.b*y.a - x.c*y.d - x.d*y.c := rfl
@[simp] theorem mul_c (x y : Cyc8) : (x*y).c = x.a*y.c + x.b*y.b + x.c*y.a - x.d*y.d := rfl
@[simp] theorem mul_d (x y : Cyc8) : (x*y).d = x.a*y.d + x.b*y.c + x.c*y.b + x.d*y.a := rfl

instance : CommRing Cyc8 where
  add_assoc x y z := by ext <;> simp <;> ring
  zero_add x := by ext <;> simp
  add_zero x := by ext <;> simp
  add_comm x y := by ext <;> simp <;> ring
  mul_assoc x y z := by ext <;> simp <;> ring
  one_mul x := by ext <;> simp
  mul_one x := by ext <;> simp
  left_distrib x y z := by ext <;> simp <;> ring
  right_distrib x y z := by ext <;> simp <;> ring
  mul_comm x y := by ext <;> simp <;> ring
  zero_mul x := by ext <;> simp
  mul_zero x := by ext <;> simp
  neg_add_cancel x := by ext <;> simp
  nsmul := nsmulRec
  zsmul := zsmulRec

def zeta : Cyc8 := ⟨0,1,0,0⟩
def I : Cyc8 := ⟨0,0,1,0⟩
def sqrt2 : Cyc8 := ⟨0,1,0,-1⟩
example : I * I = -1 := by decide
example : sqrt2 * sqrt2 = 2 := by ext <;> simp [sqrt2] <;> norm_num
#eval (zeta * zeta * zeta * zeta)
#eval sqrt2 * sqrt2
end Cyc8
