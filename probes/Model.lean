-- Mathlib-free executable model fragment
namespace OQ
def sumTo {R} [Add R] [Zero R] (n : Nat) (f : Nat → R) : R :=
  (List.range n).foldl (fun acc k => acc + f k) 0
def mmul {R} [Add R] [Mul R] [Zero R] (d : Nat) (A B : Nat → Nat → R) : Nat → Nat → R :=
  fun i j => sumTo d (fun k => A i k * B k j)
def kron {R} [Mul R] (dB : Nat) (A B : Nat → Nat → R) : Nat → Nat → R :=
  fun i j => A (i / dB) (j / dB) * B (i % dB) (j % dB)
end OQ
