import numpy as np, random, warnings, sympy, math, json, tempfile, os, io
warnings.simplefilter("ignore")
from orquestra.quantum.circuits import *
from orquestra.quantum.circuits._gates import Power
from orquestra.quantum.measurements import *
from orquestra.quantum.utils import *
from orquestra.quantum.circuits.layouts import *
from orquestra.quantum.operators import *
rnd=random.Random(3); bad=0
th,ga=sympy.symbols("theta gamma")
cd=CustomGateDefinition("foo", sympy.Matrix([[sympy.cos(ga), -sympy.sin(ga)],[sympy.sin(ga), sympy.cos(ga)]]), (ga,))
base=[X,Y,Z,S,T,SX,I,CNOT,CZ,SWAP,ISWAP,lambda:RX(0.3),lambda:RY(sympy.pi/3),lambda:RZ(1e-5),lambda:PHASE(-2.5),lambda:U3(0.1,0.2,0.3),lambda:XX(0.5),lambda:MS(0.1,0.7),lambda:GPi(0.4),lambda:GPi2(1.2),lambda:CPHASE(2),lambda:Delay(3),lambda:RH(0.9),lambda:XY(0.2),lambda:YY(0.1),lambda:ZZ(0.3)]
def rgate(d, allow_sym=True):
    g=rnd.choice(base); g=g() if callable(g) and not hasattr(g,"name") else g
    for _ in range(d):
        k=rnd.random()
        try:
            if k<0.3: g=g.controlled(rnd.randint(1,2))
            elif k<0.55: g=g.dagger
            elif k<0.8: g=g.power(rnd.choice([2,-1,3,0.5,-2]))
            else: g=g.exp
        except Exception as e: pass
    return g
def M(g): return np.array(sympy.N(g.matrix),dtype=complex)
cnt=0
for it in range(400):
    g=rgate(rnd.randint(0,3))
    if g.num_qubits>4: continue
    c=Circuit([g(*range(g.num_qubits))], n_qubits=g.num_qubits+rnd.randint(0,1))
    try:
        c2=circuit_from_dict(json.loads(json.dumps(to_dict(c))))
    except Exception as e:
        print("C05 EXC",c,type(e).__name__,e); bad+=1; continue
    cnt+=1
    if c2!=c or c2.n_qubits!=c.n_qubits: print("C05 neq",c,c2); bad+=1
print("C05 roundtrips",cnt,"bad",bad)
# C11 artefacts
d=tempfile.mkdtemp()
for it in range(200):
    n=rnd.randint(0,4)
    vals=np.array([rnd.random() for _ in range(n)]) if rnd.random()<0.5 else np.array([complex(rnd.random(),rnd.random()) for _ in range(n)])
    fr=lambda: [np.array([[complex(rnd.random(),rnd.choice([0,rnd.random()])) for _ in range(n)] for _ in range(n)]) for _ in range(rnd.randint(0,2))]
    corr=rnd.choice([None,fr()]); cov=rnd.choice([None,fr()])
    ev=ExpectationValues(vals,corr,cov); fn=os.path.join(d,"ev.json"); save_expectation_values(ev,fn)
    for src in (fn, open(fn)):
        ev2=load_expectation_values(src)
        ok=np.array_equal(ev2.values,vals)
        for a,b in ((corr,ev2.correlations),(cov,ev2.estimator_covariances)):
            if not a: ok&= b is None
            else: ok&= b is not None and len(a)==len(b) and all(np.array_equal(x,y) for x,y in zip(a,b))
        if not ok: print("C11 ev",vals,corr,cov, ev2.values, ev2.correlations); bad+=1
    bs=[tuple(rnd.randint(0,1) for _ in range(3)) for _ in range(rnd.randint(0,5))]
    m=Measurements(list(bs)); fn=os.path.join(d,"m.json"); m.save(fn)
    if Measurements.load_from_file(fn).bitstrings!=bs: print("C11 meas",bs); bad+=1
    ve=ValueEstimate(rnd.random(), rnd.choice([None,rnd.random(),0.0])); fn=os.path.join(d,"ve.json"); save_value_estimate(ve,fn)
    v2=load_value_estimate(fn)
    if not (v2==ve and v2.precision==ve.precision): print("C11 ve",ve,ve.precision,v2,v2.precision); bad+=1
    p=Parities(np.array([[rnd.randint(0,9),rnd.randint(0,9)] for _ in range(n)]), rnd.choice([None,[np.random.randint(0,5,(n,n,2))]])); fn=os.path.join(d,"p.json"); save_parities(p,fn)
    p2=load_parities(fn)
    if not np.array_equal(p2.values,p.values) or (bool(p.correlations)!=bool(p2.correlations)) or (p.correlations and not all(np.array_equal(a,b) for a,b in zip(p.correlations,p2.correlations))): print("C11 par",p.values,p.correlations,p2.correlations); bad+=1
print("C11",bad)
