import Mathlib.Analysis.SpecialFunctions.Exponential
import Mathlib.Analysis.SpecialFunctions.Exp
import Mathlib.Topology.Algebra.InfiniteSum.Order
import Mathlib.Analysis.Normed.Algebra.Exponential
import Mathlib.Tactic

open Finset

/-- d^T K d ≥ 0 for the Gaussian kernel on real points (MMD² ≥ 0) -/
theorem gauss_quadratic_nonneg {ι : Type} (s : Finset ι) (x d : ι → ℝ) (γ : ℝ) (hγ : 0 ≤ γ) :
    0 ≤ ∑ i ∈ s, ∑ j ∈ s, d i * Real.exp (-γ * (x i - x j)^2) * d j := by
  -- weights w i = d i * exp(-γ x_i²)
  set w : ι → ℝ := fun i => d i * Real.exp (-γ * (x i)^2) with hw
  have hsplit : ∀ i j, d i * Real.exp (-γ * (x i - x j)^2) * d j
      = w i * w j * Real.exp (2 * γ * x i * x j) := by
    intro i j
    simp only [hw]
    have : -γ * (x i - x j)^2 = -γ * (x i)^2 + (-γ * (x j)^2) + 2 * γ * x i * x j := by ring
    rw [this, Real.exp_add, Real.exp_add]; ring
  simp_rw [hsplit]
  -- series for each exponential
  have hser : ∀ i j, HasSum (fun k : ℕ => (2 * γ * x i * x j)^k / (k.factorial : ℝ))
      (Real.exp (2 * γ * x i * x j)) := by
    intro i j
    have := NormedSpace.expSeries_div_hasSum_exp (𝔸 := ℝ) (2 * γ * x i * x j)
    rwa [← Real.exp_eq_exp_ℝ] at this
  have hsum : HasSum (fun k : ℕ => ∑ i ∈ s, ∑ j ∈ s, w i * w j * ((2 * γ * x i * x j)^k / (k.factorial : ℝ)))
      (∑ i ∈ s, ∑ j ∈ s, w i * w j * Real.exp (2 * γ * x i * x j)) := by
    apply hasSum_sum; intro i _
    apply hasSum_sum; intro j _
    exact (hser i j).mul_left _
  refine hsum.nonneg ?_
  intro k
  have : ∑ i ∈ s, ∑ j ∈ s, w i * w j * ((2 * γ * x i * x j)^k / (k.factorial : ℝ))
      = ((2 * γ)^k / (k.factorial : ℝ)) * (∑ i ∈ s, w i * (x i)^k)^2 := by
    rw [sq, Finset.sum_mul_sum, Finset.mul_sum]
    apply Finset.sum_congr rfl; intro i _
    rw [Finset.mul_sum]
    apply Finset.sum_congr rfl; intro j _
    rw [mul_pow, mul_pow]; ring
  rw [this]
  positivity
#print axioms gauss_quadratic_nonneg
