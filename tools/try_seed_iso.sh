#!/bin/sh
# tools/try_seed_iso.sh <seeded-dir> [tier] — like try_seed.sh but runs from a private copy of /verif (own .lake, own
# Generated tables, own lock) so several seeded changes can be tried in parallel without disturbing /verif or /repo.
HERE="$(cd "$(dirname "$0")/.." && pwd)"
D="$(cd "$1" && pwd)"; TIER="${2:-quick}"; ID="$(basename "$D")"
PROP=$(python3 -c "import json,sys; print(json.load(open('$D/meta.json'))['property'])")
WT="/tmp/seedwt_${ID}_$$"; VC="/tmp/seedverif_${ID}_$$"
git -C /repo worktree add --detach "$WT" HEAD >/dev/null 2>&1 || { echo "cannot create worktree"; exit 2; }
if ! git -C "$WT" apply "$D/patch.diff"; then echo "patch does not apply: $ID"; git -C /repo worktree remove --force "$WT"; exit 2; fi
mkdir -p "$VC"; (cd "$HERE" && tar cf - --exclude=.git --exclude=seeded --exclude=probes --exclude=evidence . ) | (cd "$VC" && tar xf -)
mkdir -p "$VC/evidence"
cd "$VC"
OQ_REPO="$WT" VERIF_SEED="${VERIF_SEED:-0}" ./check "$PROP" --tier "$TIER" > "$VC/run.log" 2>&1
RC=$?
LINE=$(grep -E "^VIOLATION" "$VC/run.log" | head -1)
cd /; git -C /repo worktree remove --force "$WT"; git -C /repo worktree prune; 
mkdir -p /tmp/seedlogs; cp "$VC/run.log" "/tmp/seedlogs/$ID.log"; rm -rf "$VC"
if [ "$RC" = "1" ]; then echo "DETECTED $ID ($PROP, $TIER) $LINE"; else echo "MISSED $ID ($PROP, $TIER) rc=$RC"; fi
