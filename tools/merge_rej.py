#!/usr/bin/env python3
"""tools/merge_rej.py — merge the rejected hunks that parallel translator packages produce in the two shared files
harness/prelude_check.py (a call line in _cases + a _cases_tN function + a prefix in the structured-answer test) and
lean/OQ/Driver/Py.lean (a block of `| "tN_…" =>` arms before the catch-all arm).  Run in /verif after integrate_patch.sh."""
import os, re, sys
V = os.path.dirname(os.path.dirname(os.path.abspath(__file__)))


def plus_lines(rej, hunk_filter=None):
    out, cur = [], []
    for l in open(rej).read().split("\n"):
        if l.startswith("@@"):
            if cur:
                out.append(cur)
            cur = []
        elif l.startswith("+") and not l.startswith("+++"):
            cur.append(l[1:])
    if cur:
        out.append(cur)
    return out


p = os.path.join(V, "harness/prelude_check.py")
if os.path.exists(p + ".rej"):
    s = open(p).read()
    for hunk in plus_lines(p + ".rej"):
        calls = [l for l in hunk if re.match(r"\s+_cases_t\d+\(rng, n, reqs, want\)", l)]
        rest = [l for l in hunk if l not in calls and not l.startswith("_STRUCTURED = ")]
        for l in hunk:
            for pref in re.findall(r'"(t\d+_)"', l) if l.startswith("_STRUCTURED = ") else []:
                if f'"{pref}"' not in s.split("_STRUCTURED = ")[1].split("\n")[0]:
                    s = s.replace('_STRUCTURED = (', f'_STRUCTURED = ("{pref}", ', 1)
        for c in calls:
            if c.strip().split("(")[0] + "(rng" in s:
                continue
            last = [m for m in re.finditer(r"^    _cases_t\d+\(rng, n, reqs, want\).*\n", s, re.M)][-1]
            s = s[:last.end()] + c + "\n" + s[last.end():]
        if any(l.startswith("def _cases_t") for l in rest):
            i = s.index("def _cases_t2(")
            s = s[:i] + "\n".join(rest).strip("\n") + "\n\n\n" + s[i:]
        for l in rest:
            for pref in re.findall(r'op\.startswith\("(t\d+_)"\)', l):
                if f'"{pref}"' not in s.split("_STRUCTURED = ")[1].split("\n")[0]:
                    s = s.replace('_STRUCTURED = (', f'_STRUCTURED = ("{pref}", ', 1)
    open(p, "w").write(s)
    os.remove(p + ".rej")
    print("merged", p)

p = os.path.join(V, "lean/OQ/Driver/Py.lean")
if os.path.exists(p + ".rej"):
    s = open(p).read()
    marker = '  | _ => throw s!"unknown prelude op {op}"'
    for hunk in plus_lines(p + ".rej"):
        if any(re.match(r'\s+\| "t\d+_', l) for l in hunk):
            s = s.replace(marker, "\n".join(hunk) + "\n" + marker)
        else:
            print("UNMERGED hunk in Driver/Py.lean:\n" + "\n".join(hunk)); sys.exit(1)
    open(p, "w").write(s)
    os.remove(p + ".rej")
    print("merged", p)
for root, _d, files in os.walk(V):
    if ".lake" in root or "/seeded" in root:
        continue
    for f in files:
        if f.endswith(".orig"):
            os.remove(os.path.join(root, f))
        if f.endswith(".rej"):
            print("REMAINING REJECT:", os.path.join(root, f))
