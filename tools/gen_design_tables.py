#!/usr/bin/env python3
"""Regenerate the machine-derived tables of DESIGN.md §10 (between the BEGIN/END GENERATED markers)."""
import json, os, re, sys, glob
V = os.path.dirname(os.path.dirname(os.path.abspath(__file__)))
sys.path.insert(0, V)
from harness import common

def lines_of(path):
    try:
        return sum(1 for _ in open(path))
    except OSError:
        return 0

props = [json.loads(l) for l in open(os.path.join(V, "properties.jsonl"))]
out = []
out.append("| id | theorems (Props) | `_partial` theorems | Lean lines (model / lemmas / props) | harness lines |")
out.append("|----|------|------|------|------|")
tot = [0, 0, 0, 0, 0]
for p in props:
    pid = p["id"]
    names = [n.split(".")[-1] for n in common.theorem_names(pid)]
    partial = [n for n in names if n.endswith("_partial")]
    ml = sum(lines_of(f) for f in glob.glob(os.path.join(V, "lean/OQ/Model", pid + "*.lean")))
    ll = sum(lines_of(f) for f in glob.glob(os.path.join(V, "lean/OQ/Lemmas", pid + "*.lean")))
    pl = sum(lines_of(f) for f in glob.glob(os.path.join(V, "lean/OQ/Props", pid + "*.lean")))
    hl = sum(lines_of(f) for f in glob.glob(os.path.join(V, "harness/props", pid.lower() + "*.py")))
    out.append(f"| {pid} | {len(names)} | {', '.join(partial) if partial else '–'} | {ml} / {ll} / {pl} | {hl} |")
    for i, v in enumerate([len(names), ml, ll, pl, hl]):
        tot[i] += v
shared = sum(lines_of(f) for f in glob.glob(os.path.join(V, "lean/OQ/Exec/*.lean")) + glob.glob(os.path.join(V, "lean/OQ/Spec/*.lean")) +
             [os.path.join(V, "lean/OQ/Model", x) for x in ("Gates.lean", "Lift.lean", "Pauli.lean")] + [os.path.join(V, "lean/OQ/Lemmas/Bridge.lean")])
out.append(f"| total | {tot[0]} | | {tot[1]} / {tot[2]} / {tot[3]} (+ {shared} shared backbone) | {tot[4]} |")
t1 = "\n".join(out)

status = {}
lr = os.path.join(V, "seeded", "LAST_RUN.txt")
if os.path.exists(lr):
    for ln in open(lr):
        mm = re.match(r"(DETECTED|MISSED) (\S+) ", ln)
        if mm:
            status[mm.group(2)] = ("detected, concrete failing input" if mm.group(1) == "DETECTED" and "no-failing-input-found" not in ln
                                   else "detected (no-failing-input-found)" if mm.group(1) == "DETECTED" else "MISSED")
out = ["| seeded change | property | what it breaks | quick tier of the property's check (seeded/LAST_RUN.txt) |", "|----|----|----|----|"]
for d in sorted(glob.glob(os.path.join(V, "seeded/*/meta.json"))):
    m = json.load(open(d))
    name = os.path.basename(os.path.dirname(d))
    br = re.sub(r"\s+", " ", m['breaks']).replace("|", "/")
    br = br if len(br) <= 260 else br[:257] + "…"
    out.append(f"| {name} | {m['property']} | {br} | {status.get(name, 'not run')} |")
t2 = "\n".join(out)

known, fixed = common.load_known()
out = ["| property | commit | what failed |", "|----|----|----|"]
for f in fixed:
    out.append(f"| {f['property']} | {f['commit']} | {f['what']} |")
t3 = "\n".join(out)
out = ["| property | signature | what fails |", "|----|----|----|"]
for k in known:
    out.append(f"| {k['property']} | `{k['sig']}` | {k['what']} |")
t4 = "\n".join(out)

path = os.path.join(V, "DESIGN.md")
s = open(path).read()
for tag, body in (("VOLUME", t1), ("SEEDS", t2), ("FIXED", t3), ("KNOWN", t4)):
    b, e = f"<!-- BEGIN GENERATED {tag} -->", f"<!-- END GENERATED {tag} -->"
    if b in s:
        s = s[:s.index(b) + len(b)] + "\n" + body + "\n" + s[s.index(e):]
open(path, "w").write(s)
print("tables regenerated")
