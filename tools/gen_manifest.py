#!/usr/bin/env python3
"""Regenerate MANIFEST.json from tools/manifest_texts.json (per-property level text / note) and from what is
actually present (a property is claimed iff its Props file and harness module exist and it has a text entry)."""
import json, os
V = os.path.dirname(os.path.dirname(os.path.abspath(__file__)))
props = [json.loads(l) for l in open(os.path.join(V, "properties.jsonl"))]
texts = json.load(open(os.path.join(V, "tools", "manifest_texts.json")))
TECH = "Lean 4 proof over a hand-written executable model + differential correspondence with the implementation (+ regenerated tables / translated definitions where noted)"
SUFFIX = (" Since the hardening passes (DESIGN §10.5) the differential tie and the oracle also run multi-step histories on long-lived objects, "
          "sibling cases differing in one component, calls repeated after the caller edited earlier results, size ladders across round numbers, "
          "magnitudes across every library tolerance and every route the property equates; the exact case kinds and their counts are in the evidence file of each run.")
checks, na = [], []
for p in props:
    pid = p["id"]
    have = os.path.exists(os.path.join(V, "lean", "OQ", "Props", f"{pid}.lean")) and \
        os.path.exists(os.path.join(V, "harness", "props", f"{pid.lower()}.py")) and pid in texts
    if not have:
        na.append({"property_id": pid, "reason": texts.get("_na", {}).get(pid, "check under construction in this revision (Lean model + correspondence not yet integrated); not claimed yet")})
        continue
    t = dict(texts[pid])
    # theorem counts are taken from the sources, not from the hand-written text
    import re, sys
    sys.path.insert(0, V)
    from harness import common
    names = common.theorem_names(pid)
    comp = [m.split(".")[-1] for m in common.prop_modules(pid) if m != f"OQ.Props.{pid}"]
    t["text"] = re.sub(r"^\d+ Lean theorems", f"{len(names)} Lean theorems (OQ/Props/{pid}.lean"
                       + (" with the companion files " + ", ".join(comp) if comp else "") + ")", t["text"], count=1)
    checks.append({
        "property_id": pid, "quick_cmd": f"./check {pid} --tier quick", "thorough_cmd": f"./check {pid} --tier thorough",
        "evidence_file": f"evidence/{pid}.json", "replay_cmd_template": f"./check {pid} --replay {{path}}",
        "engine": "lean-proof+correspondence",
        "level_claimed": {"category": "proof", "text": t["text"] + SUFFIX, "design_ref": f"DESIGN.md §4 {pid}, §10"},
        "level_note": t["note"], "technique": t.get("technique", TECH)})
claimed = [c["property_id"] for c in checks]
m = {"version": 1, "setup_cmd": "./setup.sh",
     "hooks": {"guard": "ORQUESTRA_QUANTUM_VERIF",
               "enable": "no instrumentation is compiled into /repo; checks import /repo/src in-process with ORQUESTRA_QUANTUM_VERIF=1 set",
               "baseline_off_cmd": "cd /repo && /venv/bin/python -m pytest -ra -q -p no:cacheprovider --timeout=900 --continue-on-collection-errors",
               "source_commits": [], "add_only": True},
     "engines": [
         {"name": "lean", "path": "lean/", "serves_properties": claimed,
          "kind_free_text": "Lean 4 project OQ: Mathlib-free executable models, specs, lemmas, property theorems (OQ/Props), compiled model driver oqdriver"},
         {"name": "harness", "path": "harness/", "serves_properties": claimed,
          "kind_free_text": "Python harness: table/definition regeneration from /repo, lake build + axiom audit, differential correspondence, property oracles, failing-input search, evidence"}],
     "checks": checks,
     "notes": "See DESIGN.md (§10 As built). KNOWN_FINDINGS.txt lists fixed and known findings; seeded/ holds the seeded changes used to test the checks.",
     "not_applicable": na}
json.dump(m, open(os.path.join(V, "MANIFEST.json"), "w"), indent=1)
print("claimed:", claimed)
