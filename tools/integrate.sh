#!/bin/sh
# tools/integrate.sh Cxx  — copy a builder's per-property files from /tmp/agents/Cxx/verif into /verif
ID="$1"; W="/tmp/agents/$ID/verif"; id=$(echo "$ID" | tr 'A-Z' 'a-z')
[ -d "$W" ] || { echo "no $W"; exit 2; }
for sub in Model Lemmas Props Driver Spec; do
  for f in "$W"/lean/OQ/$sub/${ID}*.lean; do [ -f "$f" ] && cp -v "$f" /verif/lean/OQ/$sub/; done
done
for f in "$W"/harness/props/${id}*.py; do [ -f "$f" ] && cp -v "$f" /verif/harness/props/; done
[ -d "$W/corpus/$ID" ] && cp -rv "$W/corpus/$ID" /verif/corpus/
echo "--- files in the copy that differ from /verif outside the per-property set:"
cd "$W" && for f in $(find harness lean/OQ lean/Main.lean lean/lakefile.toml check setup.sh KNOWN_FINDINGS.txt -type f \( -name '*.py' -o -name '*.lean' -o -name '*.toml' -o -name '*.txt' -o -name check -o -name '*.sh' \) 2>/dev/null | grep -v __pycache__ | grep -v "/Generated/" | grep -v "Driver/All.lean"); do
  if [ ! -f "/verif/$f" ]; then echo "NEW  $f"; elif ! cmp -s "$f" "/verif/$f"; then echo "DIFF $f"; fi
done
