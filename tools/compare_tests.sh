#!/bin/sh
# compare_tests.sh <worktree>  — run the repository's test suite in <worktree> (its own src/ on PYTHONPATH) and
# compare with the baseline list of tests that pass on the unchanged tree.  Prints OK / the newly failing tests.
WT="$(cd "$1" && pwd)"
OUT="$(mktemp /tmp/junit_XXXXXX.xml)"
cd "$WT" && PYTHONPATH="$WT/src" /venv/bin/python -m pytest -q -p no:cacheprovider --timeout=900 --continue-on-collection-errors -n 8 --dist loadfile --junitxml="$OUT" >/dev/null 2>&1
/venv/bin/python - "$OUT" <<'PY'
import json, sys, xml.etree.ElementTree as ET
base = set(json.load(open('/root/.vp/BASELINE.json'))['stable_pass'])
t = ET.parse(sys.argv[1]); ok=set(); bad=set()
for tc in t.iter('testcase'):
    name = tc.get('classname') + '::' + tc.get('name')
    if any(ch.tag in ('failure','error') for ch in tc): bad.add(name)
    elif any(ch.tag == 'skipped' for ch in tc): pass
    else: ok.add(name)
newly = sorted(base - ok)
print(f"passed {len(ok)} failed {len(bad)}; baseline stable_pass {len(base)}; newly failing/missing: {len(newly)}")
for n in newly[:20]: print("  NEWLY FAILING:", n)
print("OK" if not newly else "NOT-OK")
PY
rm -f "$OUT"
