#!/bin/sh
# tools/try_seed.sh <seeded-dir> [tier]   — apply a seeded change to a scratch worktree of /repo, run the check of
# the property it breaks against that worktree (OQ_REPO), remove the worktree.  Prints DETECTED / MISSED.
# (Equivalent to `git -C /repo apply …; ./check …; git -C /repo checkout -- .` but does not disturb /repo.)
HERE="$(cd "$(dirname "$0")/.." && pwd)"
D="$(cd "$1" && pwd)"; TIER="${2:-quick}"
PROP=$(python3 -c "import json,sys; print(json.load(open('$D/meta.json'))['property'])")
WT="/tmp/seedwt_$$"
git -C /repo worktree add --detach "$WT" HEAD >/dev/null 2>&1 || { echo "cannot create worktree"; exit 2; }
if ! git -C "$WT" apply "$D/patch.diff"; then echo "patch does not apply"; git -C /repo worktree remove --force "$WT"; exit 2; fi
cd "$HERE"
OQ_REPO="$WT" ./check "$PROP" --tier "$TIER" > "/tmp/try_seed_$$.log" 2>&1
RC=$?
git -C /repo worktree remove --force "$WT"; git -C /repo worktree prune
grep -E "VIOLATION|exit" "/tmp/try_seed_$$.log" | head -4
rm -f "/tmp/try_seed_$$.log"
if [ "$RC" = "1" ]; then echo "DETECTED $D ($PROP, $TIER)"; else echo "MISSED $D ($PROP, $TIER) rc=$RC"; fi
