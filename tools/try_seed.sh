#!/bin/sh
# tools/try_seed.sh <seeded-dir> [tier]   — apply a seeded change to /repo, run the check of the property it
# breaks, undo the change.  Prints DETECTED / MISSED.  (Seeded changes are never committed to /repo.)
D="$(cd "$1" && pwd)"; TIER="${2:-quick}"
PROP=$(python3 -c "import json,sys; print(json.load(open('$D/meta.json'))['property'])")
cd /repo || exit 2
if ! git diff --quiet; then echo "/repo has uncommitted changes"; exit 2; fi
git apply "$D/patch.diff" || { echo "patch does not apply"; exit 2; }
cd /verif
./check "$PROP" --tier "$TIER" > "/tmp/try_seed_$$.log" 2>&1
RC=$?
git -C /repo checkout -- .
grep -E "VIOLATION|KNOWN-FINDING|exit" "/tmp/try_seed_$$.log" | head -5
rm -f "/tmp/try_seed_$$.log"
if [ "$RC" = "1" ]; then echo "DETECTED $D ($PROP, $TIER)"; else echo "MISSED $D ($PROP, $TIER) rc=$RC"; fi
