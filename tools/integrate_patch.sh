#!/bin/sh
# tools/integrate_patch.sh Cxx <base-commit> [apply]  — what a builder changed in its private copy /tmp/agents/Cxx/verif relative
# to the /verif commit the copy was taken from, as a patch (shown; applied to /verif with `apply`).
ID="$1"; BASE="$2"; W="/tmp/agents/$ID/verif"; B="/tmp/agents/$ID/base"
[ -d "$W" ] || { echo "no $W"; exit 2; }
rm -rf "$B"; mkdir -p "$B"; git -C /verif archive "$BASE" | tar xf - -C "$B"
cd /tmp/agents/$ID
diff -ruN -x .lake -x evidence -x replays -x __pycache__ -x seeded -x seeded_retired -x probes -x Generated -x All.lean -x '*.pyc' -x base -x repo base verif > "/tmp/agents/$ID/changes.patch"
grep '^diff -ruN' "/tmp/agents/$ID/changes.patch" | awk '{print $NF}'
if [ "$3" = "apply" ]; then cd /verif && patch -p1 < "/tmp/agents/$ID/changes.patch"; fi
rm -rf "$B"
