#!/bin/sh
# tools/run_seeds.sh [pattern] [tier] — try every seeded change matching the pattern; prints DETECTED / MISSED lines
cd "$(dirname "$0")/.."
for d in seeded/${1:-*}; do [ -f "$d/meta.json" ] && tools/try_seed.sh "$d" "${2:-quick}" 2>&1 | tail -1; done
