#!/usr/bin/env python3
"""tools/import_seeds.py /tmp/mut2 r2  — copy seeded changes produced by independent sub-agents
(<dir>/Cxx/out/mN/{patch.diff,demo.py,notes.md}) into seeded/Cxx_<tag>mN/ with a meta.json."""
import json, os, re, shutil, sys
V = os.path.dirname(os.path.dirname(os.path.abspath(__file__)))
root, tag = sys.argv[1], sys.argv[2]
for prop in sorted(os.listdir(root)):
    out = os.path.join(root, prop, "out")
    if not re.fullmatch(r"C\d\d", prop) or not os.path.isdir(out):
        continue
    for m in sorted(os.listdir(out)):
        src = os.path.join(out, m)
        if not all(os.path.exists(os.path.join(src, f)) for f in ("patch.diff", "demo.py", "notes.md")):
            continue
        dst = os.path.join(V, "seeded", f"{prop}_{tag}{m}")
        if os.path.exists(os.path.join(dst, "meta.json")):
            continue
        os.makedirs(dst, exist_ok=True)
        for f in ("patch.diff", "demo.py", "notes.md"):
            shutil.copy(os.path.join(src, f), dst)
        notes = open(os.path.join(src, "notes.md")).read()
        text = " ".join(l.strip() for l in notes.split("\n") if l.strip() and not l.startswith("#"))
        json.dump({"property": prop, "breaks": text[:400], "needs": "see notes.md",
                   "source": f"independent sub-agent (round {tag}, given only the property text, the list of earlier attempts and its own worktree)",
                   "verified": "compare_tests.sh OK with the change (no newly failing test); demo.py exits 1 with it and 0 without (agent's report, notes.md)"},
                  open(os.path.join(dst, "meta.json"), "w"), indent=1)
        print("imported", dst)
