#!/bin/sh
# tools/verify_seed.sh <dir with patch.diff demo.py> — confirm a seeded change independently: applies to a fresh worktree of
# /repo HEAD, existing suite has no newly failing test, demo exits 1 with the change and 0 without it.  Prints one line.
D="$(cd "$1" && pwd)"; ID="$(echo "$D" | sed 's#/#_#g')"; WT="/tmp/vs_$ID"
git -C /repo worktree add --detach "$WT" HEAD >/dev/null 2>&1 || { echo "FAIL $D cannot create worktree"; exit 2; }
cd "$WT"
PYTHONPATH="$WT/src" timeout 600 /venv/bin/python "$D/demo.py" >/dev/null 2>&1; R0=$?
if ! git apply "$D/patch.diff" 2>/dev/null; then echo "FAIL $D patch does not apply"; cd /; git -C /repo worktree remove --force "$WT"; exit 1; fi
ONLYSRC=$(git status --short | grep -v ' src/' | wc -l)
PYTHONPATH="$WT/src" timeout 600 /venv/bin/python "$D/demo.py" >/dev/null 2>&1; R1=$?
T=$(/verif/tools/compare_tests.sh "$WT" | tail -1)
cd /; git -C /repo worktree remove --force "$WT"; git -C /repo worktree prune
if [ "$R0" = "0" ] && [ "$R1" = "1" ] && [ "$T" = "OK" ] && [ "$ONLYSRC" = "0" ]; then echo "CONFIRMED $D"; else echo "FAIL $D demo_without=$R0 demo_with=$R1 tests=$T non_src_files=$ONLYSRC"; fi
