#!/bin/bash
# usage: sweep_par.sh "<seeds>" [tier] [jobs]
cd /verif
TIER="${2:-quick}"
run1(){ seed=$1; p=$2; s=$(date +%s); VERIF_SEED=$seed ./check $p --tier $TIER > /tmp/sw/${p}_$seed.log 2>&1; rc=$?; e=$(date +%s); echo "seed=$seed $p rc=$rc t=$((e-s))s $(tail -1 /tmp/sw/${p}_$seed.log | sed 's/.*cases/cases/' | cut -c1-150)"; if [ $rc -ne 0 ]; then grep -E "VIOLATION|INTERNAL|TIMEOUT|Traceback" /tmp/sw/${p}_$seed.log | head -3; fi; }
export -f run1; export TIER
mkdir -p /tmp/sw
for seed in $1; do for i in $(seq -w 1 20); do echo "$seed C$i"; done; done | xargs -P "${3:-4}" -L1 bash -c 'run1 $0 $1'
