#!/usr/bin/env python3
"""tools/last_run_from_logs.py — rebuild seeded/LAST_RUN.txt from the logs tools/try_seed_iso.sh leaves in /tmp/seedlogs/<seed>.log
(the most recent quick run of the property's check against each seeded change)."""
import glob, os, re
V = os.path.dirname(os.path.dirname(os.path.abspath(__file__)))
out = []
for d in sorted(glob.glob(os.path.join(V, "seeded", "*", "meta.json"))):
    name = os.path.basename(os.path.dirname(d))
    log = f"/tmp/seedlogs/{name}.log"
    if not os.path.exists(log):
        continue
    txt = open(log).read()
    prop = name.split("_")[0]
    m = re.search(r"-> exit (\d+)\s*$", txt.strip().split("\n")[-1]) if txt.strip() else None
    rc = int(m.group(1)) if m else 2
    vio = [l for l in txt.split("\n") if l.startswith("VIOLATION")]
    if rc == 1 and vio:
        out.append(f"DETECTED {name} ({prop}, quick) {vio[0]}")
    else:
        out.append(f"MISSED {name} ({prop}, quick) rc={rc}")
open(os.path.join(V, "seeded", "LAST_RUN.txt"), "w").write("\n".join(out) + "\n")
print(len(out), "seeds;", sum(1 for l in out if l.startswith("MISSED")), "missed;",
      sum(1 for l in out if "no-failing-input-found" in l), "without a failing input")
