#!/bin/sh
# tools/sweep_clean.sh "<seeds>" [tier] — run every claimed check on the unchanged tree with several seeds; any line
# other than exit 0 is a false alarm (or a timeout) to investigate.
cd "$(dirname "$0")/.."
TIER="${2:-quick}"
for seed in $1; do
  for p in $(python3 -c "import json; print(' '.join(c['property_id'] for c in json.load(open('MANIFEST.json'))['checks']))"); do
    VERIF_SEED=$seed ./check $p --tier $TIER > /tmp/sweep_$p.log 2>&1
    rc=$?
    echo "seed=$seed $p rc=$rc $(tail -1 /tmp/sweep_$p.log | sed 's/.*cases/cases/')"
    if [ $rc -ne 0 ]; then grep -E "VIOLATION|failing input|INTERNAL|TIMEOUT|Traceback" /tmp/sweep_$p.log | head -5; fi
  done
done
