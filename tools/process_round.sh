#!/bin/bash
# tools/process_round.sh <round dir, e.g. /tmp/mut6> <tag, e.g. r6> — for every finished seeded change <dir>/Cxx/out/mK (patch.diff,
# demo.py, notes.md present) that has not been processed yet: confirm it independently (verify_seed.sh), import it into seeded/
# (import_seeds.py) and run the property's quick check against it (try_seed_iso.sh).  Status lines go to <dir>/STATUS.txt.
R="$1"; TAG="$2"; V="$(cd "$(dirname "$0")/.." && pwd)"
one() {
  d="$1"; R="$2"; TAG="$3"; V="$4"
  p=$(basename "$(dirname "$(dirname "$d")")"); m=$(basename "$d")
  res=$("$V/tools/verify_seed.sh" "$d" 2>&1 | grep -E "^(CONFIRMED|FAIL)" | tail -1)
  if echo "$res" | grep -q "^CONFIRMED"; then
    tmp=$(mktemp -d /tmp/imp_XXXXXX); mkdir -p "$tmp/$p/out"; cp -r "$d" "$tmp/$p/out/"
    python3 "$V/tools/import_seeds.py" "$tmp" "$TAG" >/dev/null; rm -rf "$tmp"
    det=$("$V/tools/try_seed_iso.sh" "$V/seeded/${p}_${TAG}${m}" quick 2>&1 | tail -1)
    echo "$p/$m CONFIRMED | $det" >> "$R/STATUS.txt"
  else
    echo "$p/$m $res" >> "$R/STATUS.txt"
  fi
}
export -f one
touch "$R/STATUS.txt"
for d in "$R"/C??/out/m?; do
  [ -f "$d/patch.diff" ] && [ -f "$d/demo.py" ] && [ -f "$d/notes.md" ] || continue
  p=$(basename "$(dirname "$(dirname "$d")")"); m=$(basename "$d")
  grep -q "^$p/$m " "$R/STATUS.txt" && continue
  [ -n "$ONLY" ] && ! echo " $ONLY " | grep -q " $p " && continue   # ONLY="C06 C08": just these properties (agents that have finished)
  echo "$d"
done | xargs -r -P "${3:-2}" -I{} bash -c 'one "$@"' _ {} "$R" "$TAG" "$V"
