#!/bin/sh
# tools/run_seeds_par.sh [glob] [tier] [jobs] — try seeded changes in parallel, each from a private copy of /verif
cd "$(dirname "$0")/.."
ls -d seeded/${1:-*} | xargs -P "${3:-8}" -I{} tools/try_seed_iso.sh {} "${2:-quick}"
